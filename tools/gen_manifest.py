#!/usr/bin/env python3
"""Regenerate /verif/MANIFEST.json from tools/plan.py (claimed properties) so the two never drift."""
import json, os, sys
ROOT = os.path.dirname(os.path.dirname(os.path.abspath(__file__)))
sys.path.insert(0, os.path.join(ROOT, "tools"))
import plan

ALL = ["C%02d" % i for i in range(1, 21)]
checks = []
for pid in ALL:
    if pid not in plan.PROPS:
        continue
    P = plan.PROPS[pid]
    checks.append(dict(
        property_id=pid,
        quick_cmd="./check %s --tier quick" % pid,
        thorough_cmd="./check %s --tier thorough" % pid,
        evidence_file="/verif/evidence/%s.json" % pid,
        replay_cmd_template="./check %s --replay {path}" % pid,
        engine="ccv",
        level_claimed=dict(category=P.get("level", "exploration"), text=P["level_text"], design_ref=P.get("design_ref", "DESIGN.md section 6, " + pid)),
        level_note=P["level_note"],
        technique=P["technique"],
    ))
na = [dict(property_id=p, reason=plan.NOT_APPLICABLE.get(p, "monitor not built yet in this tree")) for p in ALL if p not in plan.PROPS]
m = dict(
    version=1,
    setup_cmd="./check --setup",
    hooks=dict(
        guard="--cfg cryptocorrosion_verif",
        enable="RUSTFLAGS='--cfg zerocopy_derive_union_into_bytes --cfg cryptocorrosion_verif' (set by ./check for every harness build; the harness depends on the /repo crates by path)",
        baseline_off_cmd="cd /repo && cargo test --workspace --no-fail-fast --offline",
        source_commits=plan.HOOK_COMMITS,
        add_only=True,
    ),
    engines=[dict(name="ccv", path="/verif/harness", serves_properties=[c["property_id"] for c in checks],
                  kind_free_text="Rust worker binary (reference-model monitors, shadow-model history checkers, guard pages) built per configuration "
                                 "(stable debug/release, portable, no-std arms, no_unroll, ASan, TSan, Miri, valgrind) and driven by the python driver ./check")],
    checks=checks,
    not_applicable=na,
    notes="Runtime monitoring and sanitizers only. Verdicts are three-valued: exit 0 held on what was observed, 1 violation (with replay file), 2 inconclusive. "
          "Known findings live in /verif/known_findings.json.",
)
json.dump(m, open(os.path.join(ROOT, "MANIFEST.json"), "w"), indent=1)
print("MANIFEST.json: %d checks, %d not_applicable" % (len(checks), len(na)))
