#!/usr/bin/env python3
"""Regenerate the seeded-change table of DESIGN.md section 13 from seeded/*/meta.json."""
import json, os, re
ROOT = os.path.dirname(os.path.dirname(os.path.abspath(__file__)))
rows = []
for name in sorted(os.listdir(os.path.join(ROOT, "seeded"))):
    mp = os.path.join(ROOT, "seeded", name, "meta.json")
    if not os.path.exists(mp):
        continue
    m = json.load(open(mp))
    fired = [k for k, v in m.get("checks_quick", {}).items() if v == "fired"]
    silent = [k for k, v in m.get("checks_quick", {}).items() if v == "silent"]
    fired += ["%s (thorough tier)" % k for k, v in m.get("checks_thorough", {}).items() if v == "fired" and k not in fired]
    rows.append("| `%s` | %s | %s | %s | %s | %s |" % (name, ", ".join(m["breaks"]), m["change"].replace("|", "\\|"), m["needs"].replace("|", "\\|"),
                                                ", ".join(sorted(fired)) or "-", ", ".join(sorted(silent)) or "-"))
tbl = "| seeded change | breaks | change | needs, to manifest | quick checks that fire | also run, silent |\n|---|---|---|---|---|---|\n" + "\n".join(rows)
p = os.path.join(ROOT, "DESIGN.md")
s = open(p).read()
if "@@SEEDED_TABLE@@" in s:
    s = s.replace("@@SEEDED_TABLE@@", "<!-- SEEDED-TABLE-BEGIN -->\n" + tbl + "\n<!-- SEEDED-TABLE-END -->")
else:
    s = re.sub(r"<!-- SEEDED-TABLE-BEGIN -->.*?<!-- SEEDED-TABLE-END -->", lambda m: "<!-- SEEDED-TABLE-BEGIN -->\n" + tbl + "\n<!-- SEEDED-TABLE-END -->", s, flags=re.S)
open(p, "w").write(s)
print("rows:", len(rows))
