#!/usr/bin/env python3
"""Prompt for a seeding sub-agent:  tools/agent_prompt.py <ID> <worktree dir> [<tag>]
Gives the agent ONLY the property text (id, title, statement), its scratch worktree, and the list of
mechanisms earlier agents already used for this property (from seeded/*/meta.json) so that it looks elsewhere."""
import sys, json, glob, os
pid = sys.argv[1]; wt = sys.argv[2]; tag = sys.argv[3] if len(sys.argv) > 3 else pid
here = os.path.dirname(os.path.dirname(os.path.abspath(__file__)))
for l in open(os.path.join(here, "properties.jsonl")):
    d = json.loads(l)
    if d["id"] == pid:
        prop = "%s: %s\n\n%s" % (d["id"], d["title"], d.get("statement", d.get("description", "")))
        q = d.get("quantifier", {}).get("text")
        if q:
            prop += "\n\n(The property quantifies over: %s.)" % q
done = []
for m in sorted(glob.glob(os.path.join(here, "seeded", "*", "meta.json"))):
    md = json.load(open(m))
    if pid in md.get("breaks", []) and md.get("change"):
        done.append(md["change"])
excl = "\n".join("  - " + c for c in done) or "  (none yet)"
print(f"""You are helping to evaluate a verification effort for the Rust workspace `cryptocorrosion` (pure-Rust SIMD-optimised crypto primitives: ChaCha, Threefish, BLAKE/Groestl/JH/Skein, the ppv-lite86 SIMD abstraction). Your job is to play the role of a developer who introduces a *realistic, subtle regression*.

You have your own scratch git worktree of the repository at {wt} (work ONLY there; do not touch /repo, and do NOT read or use anything under /verif -- your change must be independent of whatever checks exist). Cargo works offline only (`cargo test --workspace --offline`); a Cargo.lock is already in the worktree. The rustflag `--cfg zerocopy_derive_union_into_bytes` comes from .cargo/config.toml in the worktree, so run cargo from inside {wt}.

Here is a semantic property the code is supposed to satisfy:

{prop}

TASK: make a small source change to the repository code (not to its tests) that BREAKS this property, such that
  1. the workspace still compiles and the existing test suite still passes completely (`cd {wt} && cargo test --workspace --offline` -- all tests must pass with your change);
  2. the breakage needs something specific to manifest -- e.g. a particular multi-step sequence of operations, an unusual input or length, a boundary value, a particular SIMD backend/feature configuration, a particular interleaving, or two cooperating sites that each look fine alone. It must NOT be something any ordinary use would expose at once (if nearly every input gives wrong output, it is too blunt);
  3. it looks like a plausible mistake or "optimisation"/refactoring a real developer could make (off-by-one in a boundary check, wrong constant in one rarely used path, a dropped carry, a missing reset of one field, a wrong shuffle immediate in one backend, etc.).

Also write a DEMONSTRATION: a small Rust test file or example program (put it in the worktree, e.g. as an extra test under the relevant crate's tests/ directory or as an example) that FAILS with your change and PASSES on the original code. Verify both: run it with your change (must fail), then take your source change out with `git diff -- . ':!SEEDED' > /tmp/mychange-{tag}.diff && git apply -R /tmp/mychange-{tag}.diff` (keep the demo), run it again (must pass), then re-apply with `git apply /tmp/mychange-{tag}.diff`. Do NOT use `git stash` (it is shared between worktrees).

When done, leave these files in {wt}/SEEDED/ :
  - patch.diff   : `git diff` of ONLY the source change to the library code (not the demo)
  - demo.rs (or similar) : the demonstration, plus a line at its top saying where it must be placed and how to run it
  - NOTES.md     : which property it breaks, what is needed for the breakage to manifest, exactly what you ran and what you observed (test suite result with the change; demo with and without the change).
Leave the worktree with your change applied. Finally reply with a short summary (what you changed, what triggers it). Be efficient: one good change is enough.

ADDITIONAL GUIDANCE FOR THIS ROUND: other engineers have already seeded these regressions for this property, so do NOT produce any of them or a close variant:
{excl}
Find something with a genuinely different mechanism and in a different place (a different function, type, crate, backend, entry point or feature). Ideas: two cooperating sites that each look fine alone; a "performance optimisation" with a subtly wrong precondition; an entry point or trait method that callers rarely use; clone/copy semantics; an error path; a dependence on the build profile; value-dependent slips (sign extension, a mask one bit short, operands that commute for most inputs, a constant right for one word size and wrong for another); something that only matters for one variant / state size / round count / nonce layout / vector width; lengths or values in a narrow residue class; key-, nonce- or data-dependent behaviour; realistic structured inputs (records with common headers, counters, repeated blocks) rather than random ones. Prefer a trigger that many thousands of uniformly random inputs and the usual boundary values (0, 1, all-ones, block size +-1, 2^32 +-1) would be unlikely to hit by chance but that follows logically from the property's quantifier and that a real user could plausibly run into.
demo.rs must start with the two header lines `// PLACE AT: <path relative to the worktree>` and `// RUN WITH: cd {wt} && <command>`.""")
