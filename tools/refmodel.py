# Prototype reference models, written from the specifications (memory), validated against impl outputs.
import struct
M32=0xffffffff; M64=(1<<64)-1
def msg(n): return bytes(((i*131+7)%251) for i in range(n))

# ---------------- ChaCha ----------------
def rotl32(x,n): return ((x<<n)&M32)|(x>>(32-n))
def qr(s,a,b,c,d):
    s[a]=(s[a]+s[b])&M32; s[d]=rotl32(s[d]^s[a],16)
    s[c]=(s[c]+s[d])&M32; s[b]=rotl32(s[b]^s[c],12)
    s[a]=(s[a]+s[b])&M32; s[d]=rotl32(s[d]^s[a],8)
    s[c]=(s[c]+s[d])&M32; s[b]=rotl32(s[b]^s[c],7)
SIG=[0x61707865,0x3320646e,0x79622d32,0x6b206574]
def chacha_perm(st,drounds):
    s=list(st)
    for _ in range(drounds):
        qr(s,0,4,8,12);qr(s,1,5,9,13);qr(s,2,6,10,14);qr(s,3,7,11,15)
        qr(s,0,5,10,15);qr(s,1,6,11,12);qr(s,2,7,8,13);qr(s,3,4,9,14)
    return s
def chacha_block(key,w12_15,drounds):
    st=SIG+list(struct.unpack('<8I',key))+list(w12_15)
    s=chacha_perm(st,drounds)
    return struct.pack('<16I',*[(a+b)&M32 for a,b in zip(s,st)])
def hchacha(key,n16,drounds):
    st=SIG+list(struct.unpack('<8I',key))+list(struct.unpack('<4I',n16))
    s=chacha_perm(st,drounds)
    return struct.pack('<8I',*(s[0:4]+s[12:16]))
def keystream(kind,drounds,key,nonce,pos,n):
    out=b''
    blk=pos//64
    if kind=='x':
        key=hchacha(key,nonce[:16],drounds); nonce=nonce[16:]
    while len(out)<n+(pos%64):
        if kind=='ietf':
            w=[blk&M32]+list(struct.unpack('<3I',nonce))
        else:
            w=[blk&M32,(blk>>32)&M32]+list(struct.unpack('<2I',nonce))
        out+=chacha_block(key,w,drounds); blk+=1
    return out[pos%64:pos%64+n]

# ---------------- BLAKE ----------------
SIGMA=[[0,1,2,3,4,5,6,7,8,9,10,11,12,13,14,15],[14,10,4,8,9,15,13,6,1,12,0,2,11,7,5,3],[11,8,12,0,5,2,15,13,10,14,3,6,7,1,9,4],
[7,9,3,1,13,12,11,14,2,6,5,10,4,0,15,8],[9,0,5,7,2,4,10,15,14,1,11,12,6,8,3,13],[2,12,6,10,0,11,8,3,4,13,7,5,15,14,1,9],
[12,5,1,15,14,13,4,10,0,7,6,3,9,2,8,11],[13,11,7,14,12,1,3,9,5,0,15,4,8,6,2,10],[6,15,14,9,11,3,0,8,12,2,13,7,1,4,10,5],[10,2,8,4,7,6,1,5,15,11,9,14,3,12,13,0]]
def pi_hex_words(nwords,bits):
    # fractional hex digits of pi via integer arithmetic (Machin), independent of the repo's table
    digits=nwords*bits//4+8
    scale=1<<(4*digits+64)
    def arctan_inv(x):
        t=scale//x; s=t; n=1; x2=x*x; sign=-1
        while t:
            t//=x2; n+=2; s+=sign*(t//n); sign=-sign
        return s
    pi=4*(4*arctan_inv(5)-arctan_inv(239))
    frac=pi-3*scale
    frac>>=64
    out=[]
    for i in range(nwords):
        shift=4*digits-bits*(i+1)
        out.append((frac>>shift)&((1<<bits)-1))
    return out
C32=pi_hex_words(16,32); C64=pi_hex_words(16,64)
import math
def sqrt_frac(p,bits):
    return (math.isqrt(p<<(2*bits)))&((1<<bits)-1)
PR=[2,3,5,7,11,13,17,19]; PR2=[23,29,31,37,41,43,47,53]
IV256=[sqrt_frac(p,32) for p in PR]; IV512=[sqrt_frac(p,64) for p in PR]
IV384=[sqrt_frac(p,64) for p in PR2]
IV224=[x&M32 for x in IV384]   # SHA-224 IV = low 32 bits of SHA-384 IV
def blake(bits,m):
    big=bits in (384,512)
    W=64 if big else 32; MASK=(1<<W)-1; bs=W*2 ; nr=16 if big else 14
    C=C64 if big else C32
    rots=(32,25,16,11) if big else (16,12,8,7)
    h={224:IV224,256:IV256,384:IV384,512:IV512}[bits][:]
    def rotr(x,n): return ((x>>n)|(x<<(W-n)))&MASK
    def compress(h,block,t):
        mw=struct.unpack('>16'+('Q' if big else 'I'),block)
        v=h[:]+C[:8]
        v[12]^=t&MASK; v[13]^=t&MASK; v[14]^=(t>>W)&MASK; v[15]^=(t>>W)&MASK
        def G(a,b,c,d,r,i):
            s=SIGMA[r%10]
            v[a]=(v[a]+v[b]+(mw[s[2*i]]^C[s[2*i+1]]))&MASK
            v[d]=rotr(v[d]^v[a],rots[0]); v[c]=(v[c]+v[d])&MASK; v[b]=rotr(v[b]^v[c],rots[1])
            v[a]=(v[a]+v[b]+(mw[s[2*i+1]]^C[s[2*i]]))&MASK
            v[d]=rotr(v[d]^v[a],rots[2]); v[c]=(v[c]+v[d])&MASK; v[b]=rotr(v[b]^v[c],rots[3])
        for r in range(nr):
            G(0,4,8,12,r,0);G(1,5,9,13,r,1);G(2,6,10,14,r,2);G(3,7,11,15,r,3)
            G(0,5,10,15,r,4);G(1,6,11,12,r,5);G(2,7,8,13,r,6);G(3,4,9,14,r,7)
        return [h[i]^v[i]^v[i+8] for i in range(8)]   # salt = 0
    # padding: message || 1 0..0 [1 if full-size variant] || length (2 words)
    L=len(m)*8
    lenbytes=2*W//8
    full=bits in (256,512)
    p=bytearray(m)+b'\x80'
    while (len(p)+lenbytes)%bs!=0: p+=b'\x00'
    if full: p[-1]|=0x01
    p+=L.to_bytes(lenbytes,'big')
    nblk=len(p)//bs
    for i in range(nblk):
        # counter = number of message bits hashed so far incl. this block; 0 if block has no message bits
        bits_so_far=min(L,(i+1)*bs*8)
        msg_bits_in_block=bits_so_far-min(L,i*bs*8)
        t=bits_so_far if msg_bits_in_block>0 else 0
        h=compress(h,bytes(p[i*bs:(i+1)*bs]),t)
    out=b''.join(x.to_bytes(W//8,'big') for x in h)
    return out[:bits//8]

# ---------------- Threefish / Skein ----------------
R256=[[14,16],[52,57],[23,40],[5,37],[25,33],[46,12],[58,22],[32,32]]
R512=[[46,36,19,37],[33,27,14,42],[17,49,36,39],[44,9,54,56],[39,30,34,24],[13,50,10,17],[25,29,39,43],[8,35,56,22]]
R1024=[[24,13,8,47,8,17,22,37],[38,19,10,55,49,18,23,52],[33,4,51,13,34,41,59,17],[5,20,48,41,47,28,16,25],
[41,9,37,31,12,47,44,30],[16,34,56,51,4,53,42,41],[31,44,47,46,19,42,44,25],[9,48,35,52,23,31,37,20]]
PI={4:[0,3,2,1],8:[2,1,4,7,6,5,0,3],16:[0,9,2,13,6,11,4,15,10,7,12,3,14,5,8,1]}
def rotl64(x,n): return ((x<<n)|(x>>(64-n)))&M64
def threefish(key,t0,t1,block):
    nw=len(key)//8; R={4:R256,8:R512,16:R1024}[nw]; nr=80 if nw==16 else 72
    k=list(struct.unpack('<%dQ'%nw,key)); kn=0x1BD11BDAA9FC1A22
    for x in k: kn^=x
    k.append(kn); t=[t0,t1,t0^t1]
    v=list(struct.unpack('<%dQ'%nw,block))
    def subkey(s):
        sk=[k[(s+i)%(nw+1)] for i in range(nw)]
        sk[nw-3]=(sk[nw-3]+t[s%3])&M64; sk[nw-2]=(sk[nw-2]+t[(s+1)%3])&M64; sk[nw-1]=(sk[nw-1]+s)&M64
        return sk
    for d in range(nr):
        if d%4==0:
            sk=subkey(d//4); v=[(a+b)&M64 for a,b in zip(v,sk)]
        f=[0]*nw
        for j in range(nw//2):
            x0,x1=v[2*j],v[2*j+1]
            y0=(x0+x1)&M64; y1=rotl64(x1,R[d%8][j])^y0
            f[2*j]=y0; f[2*j+1]=y1
        v=[f[PI[nw][i]] for i in range(nw)]
    sk=subkey(nr//4); v=[(a+b)&M64 for a,b in zip(v,sk)]
    return struct.pack('<%dQ'%nw,*v)
T_FIRST=1<<126; T_FINAL=1<<127
def ubi(G,nb,msgb,typ):
    # tweak is a 128-bit value: position (96 bits) | ... | type<<120 | first<<126 | final<<127
    blocks=[msgb[i:i+nb] for i in range(0,len(msgb),nb)] or [b'']
    pos=0
    for i,b in enumerate(blocks):
        pos+=len(b)
        tw=pos|(typ<<120)
        if i==0: tw|=T_FIRST
        if i==len(blocks)-1: tw|=T_FINAL
        bp=b+b'\x00'*(nb-len(b))
        e=threefish(G,tw&M64,tw>>64,bp)
        G=bytes(x^y for x,y in zip(e,bp))
    return G
def skein(nb,outbytes,m):
    cfg=b'SHA3'+struct.pack('<H',1)+b'\x00\x00'+struct.pack('<Q',outbytes*8)+b'\x00'*16
    G=ubi(b'\x00'*nb,nb,cfg,4)
    G=ubi(G,nb,m,48)
    out=b''; i=0
    while len(out)<outbytes:
        out+=ubi(G,nb,struct.pack('<Q',i),63); i+=1
    return out[:outbytes]

# ---------------- JH ----------------
S=[[9,0,4,11,13,12,3,15,1,10,2,6,7,5,8,14],[3,12,6,13,5,7,1,9,15,2,0,4,11,10,14,8]]
def Ltr(a,b):
    b^=((a<<1)^(a>>3)^((a>>2)&2))&0xf
    a^=((b<<1)^(b>>3)^((b>>2)&2))&0xf
    return a,b
def jh_round(A,rcbits,n):  # A: list of n nibbles (n=256 for E8, 64 for constant schedule with rcbits all 0)
    tem=[S[rcbits[i]][A[i]] for i in range(n)]
    for i in range(0,n,2): tem[i],tem[i+1]=Ltr(tem[i],tem[i+1])
    for i in range(0,n,4): tem[i+2],tem[i+3]=tem[i+3],tem[i+2]
    out=[0]*n
    for i in range(n//2): out[i]=tem[2*i]; out[i+n//2]=tem[2*i+1]
    for i in range(n//2,n,2): out[i],out[i+1]=out[i+1],out[i]
    return out
RC0=[int(c,16) for c in "6a09e667f3bcc908b2fb1366ea957d3e3adec17512775099da2f590b0667322a"]
def E8(H):
    bits=[(H[i>>3]>>(7-(i&7)))&1 for i in range(1024)]
    tem=[(bits[i]<<3)|(bits[i+256]<<2)|(bits[i+512]<<1)|bits[i+768] for i in range(256)]
    A=[0]*256
    for i in range(128): A[2*i]=tem[i]; A[2*i+1]=tem[i+128]
    rc=RC0[:]
    for r in range(42):
        rcbits=[(rc[i>>2]>>(3-(i&3)))&1 for i in range(256)]
        A=jh_round(A,rcbits,256)
        rc=jh_round(rc,[0]*64,64)
    tem=[0]*256
    for i in range(128): tem[i]=A[2*i]; tem[i+128]=A[2*i+1]
    out=bytearray(128)
    for i in range(256):
        for q in range(4):
            bit=(tem[i]>>(3-q))&1
            out[(i+256*q)>>3]|=bit<<(7-(i&7))
    return out
def F8(H,blk):
    H=bytearray(H)
    for i in range(64): H[i]^=blk[i]
    H=E8(H)
    for i in range(64): H[64+i]^=blk[i]
    return H
def jh(bits,m):
    H=bytearray(128); H[0]=(bits>>8)&0xff; H[1]=bits&0xff
    H=F8(H,bytes(64))
    L=len(m)*8
    p=bytearray(m)+b'\x80'
    if len(m)%64==0: p+=b'\x00'*(64-1-16)
    else:
        p+=b'\x00'*((-len(p))%64) ; p+=b'\x00'*(64-16)
    p+=L.to_bytes(16,'big')
    assert len(p)%64==0
    for i in range(0,len(p),64): H=F8(H,p[i:i+64])
    return bytes(H[128-bits//8:])

# ---------------- Groestl ----------------
def gmul(a,b):
    r=0
    while b:
        if b&1: r^=a
        a<<=1
        if a&0x100: a^=0x11b
        b>>=1
    return r
def make_sbox():
    inv=[0]*256
    for a in range(1,256):
        for b in range(1,256):
            if gmul(a,b)==1: inv[a]=b; break
    sb=[]
    for a in range(256):
        x=inv[a]; y=x
        for _ in range(4):
            x=((x<<1)|(x>>7))&0xff; y^=x
        sb.append(y^0x63)
    return sb
SB=make_sbox()
def groestl_perm(st,cols,variant):  # st[row][col]
    rounds=10 if cols==8 else 14
    if cols==8: shift={'P':[0,1,2,3,4,5,6,7],'Q':[1,3,5,7,0,2,4,6]}[variant]
    else: shift={'P':[0,1,2,3,4,5,6,11],'Q':[1,3,5,11,0,2,4,6]}[variant]
    MB=[2,2,3,4,5,3,5,7]
    for r in range(rounds):
        for j in range(cols):
            if variant=='P': st[0][j]^=(j<<4)^r
            else:
                for i in range(8): st[i][j]^=0xff
                st[7][j]^=(j<<4)^r
        st=[[SB[x] for x in row] for row in st]
        st=[[st[i][(j+shift[i])%cols] for j in range(cols)] for i in range(8)]
        new=[[0]*cols for _ in range(8)]
        for j in range(cols):
            for i in range(8):
                v=0
                for k in range(8): v^=gmul(MB[(k-i)%8],st[k][j])
                new[i][j]=v
        st=new
    return st
def groestl(bits,m):
    cols=8 if bits<=256 else 16; bs=cols*8
    def tomat(b): return [[b[j*8+i] for j in range(cols)] for i in range(8)]
    def frommat(s): return bytes(s[i][j] for j in range(cols) for i in range(8))
    def xor(a,b): return [[x^y for x,y in zip(r1,r2)] for r1,r2 in zip(a,b)]
    h=bytearray(bs); h[-2]=(bits>>8)&0xff; h[-1]=bits&0xff
    h=tomat(h)
    p=bytearray(m)+b'\x80'
    while (len(p)+8)%bs!=0: p+=b'\x00'
    nblocks=(len(p)+8)//bs
    p+=nblocks.to_bytes(8,'big')
    for i in range(0,len(p),bs):
        mm=tomat(p[i:i+bs])
        h=xor(xor(groestl_perm(xor(h,mm),cols,'P'),groestl_perm([r[:] for r in mm],cols,'Q')),h)
    o=frommat(xor(groestl_perm([r[:] for r in h],cols,'P'),h))
    return o[-bits//8:]
