"""Per-property job tables for ./check: which build configurations run which worker workloads,
with what budgets (cases per shard), for the quick and the thorough tier."""

SETUP_CONFIGS = ["std-rel", "std-dbg", "portable-rel", "portable-dbg", "nounroll-rel"]

HOOK_COMMITS = ["0eb0db3", "aa9cd32"]
NOT_APPLICABLE = {}

NOSTD = ["nostd-sse2", "nostd-ssse3", "nostd-sse41", "nostd-avx", "nostd-avx2"]


def J(prop, config, shards, budget, timeout=1800, **extra):
    """`shards` worker processes of `budget` cases each in one configuration."""
    return [dict(prop=prop, config=config, timeout=timeout,
                 args=dict(shard="%d/%d" % (i, shards), budget=budget, **extra)) for i in range(shards)]


PROPS = {
    "C01": dict(
        level="exploration",
        technique="runtime differential monitor: real seek+apply_keystream vs independent reference ChaCha, canary-checked, across forced SIMD backends and debug/release/portable/no-std/ASan builds",
        level_text="Exploration: every executed (type, backend, key, nonce, position, length) case is compared byte-for-byte with an independent, "
                   "self-tested reference ChaCha; boundary-biased sampling of positions/lengths, all six dispatch levels forced through hook H1. Not exhaustive over keys.",
        level_note="Trusts the reference model (self-tested against published vectors on every start) and that forcing a dispatch level reproduces what a CPU with that best feature executes.",
        primary=["std-rel"],
        rule="cases = (cipher type, forced backend, key/nonce pattern seed, absolute position, length) drawn with boundary bias "
             "(every pos mod 64; block indices 0..4, 2^32+-5, last blocks of the stream, random); one evaluation = one "
             "seek+apply_keystream compared byte-for-byte with the reference ChaCha and canary-checked; distinct = distinct "
             "descriptor, non-trivial = length >= 1",
        min_evals=dict(quick=50000, thorough=1000000),
        require_classes=["posmod64=0", "posmod64=63"],
        assumptions=["reference ChaCha model (self-tested against RFC 7539, draft-irtf-cfrg-xchacha and the ChaCha8/12/20 TC1 vectors at every start)",
                     "keys/nonces/positions are sampled, not enumerated"],
    ),
}


def jobs(pid, tier, seed):
    q = tier == "quick"
    js = []
    if pid == "C01":
        js += J(pid, "std-rel", 8, 20000 if q else 1200000)
        js += J(pid, "std-dbg", 4, 8000 if q else 300000)
        js += J(pid, "portable-rel", 2, 8000 if q else 400000)
        if not q:
            js += J(pid, "portable-dbg", 2, 100000)
            for c in NOSTD:
                js += J(pid, c, 2, 200000)
            js += J(pid, "asan", 4, 50000)
    for j in js:
        j["args"]["seed"] = seed
        j["args"]["tier"] = tier
    return js
