"""Per-property job tables for ./check: which build configurations run which worker workloads,
with what budgets (cases per shard), for the quick and the thorough tier; plus the texts that
go into MANIFEST.json and the evidence files."""

SETUP_CONFIGS = ["std-rel", "std-dbg", "portable-rel", "portable-dbg", "nounroll-rel", "native-rel", "asan", "miri-build", "miri-be", "tsan",
                 "nostd-sse2", "nostd-ssse3", "nostd-sse41", "nostd-avx", "nostd-avx2"]

HOOK_COMMITS = ["0eb0db3", "aa9cd32"]
NOT_APPLICABLE = {}

NOSTD = ["nostd-sse2", "nostd-ssse3", "nostd-sse41", "nostd-avx", "nostd-avx2"]

REF = "independent reference models written from the specifications (self-tested against published vectors / NIST KATs at every worker start; a failing self-test is INCONCLUSIVE)"
FORCE = "forcing a dispatch level through hook H1 executes the same functions a CPU whose best feature is that level would execute"
SAMPLED = "keys, messages and operands are sampled (boundary-biased), not enumerated; the claim covers the executions listed in the evidence"


def J(prop, config, shards, budget, timeout=1800, **extra):
    """`shards` worker processes of `budget` cases each in one configuration."""
    return [dict(prop=prop, config=config, timeout=timeout,
                 args=dict(shard="%d/%d" % (i, shards), budget=budget, **extra)) for i in range(shards)]


def P(technique, level_text, level_note, rule, min_evals, assumptions, primary=("std-rel",), require_classes=(), level="exploration"):
    return dict(level=level, technique=technique, level_text=level_text, level_note=level_note, rule=rule,
                min_evals=dict(quick=min_evals[0], thorough=min_evals[1]), assumptions=list(assumptions),
                primary=list(primary), require_classes=list(require_classes))


PROPS = {
    "C01": P(
        "runtime differential monitor: real seek+apply_keystream vs reference ChaCha, canary-checked, on all forced SIMD backends and debug/release/portable/no-std/ASan builds",
        "Exploration: every executed (type, backend, key, nonce, position, length) case is compared byte-for-byte with an independent reference ChaCha; "
        "boundary-biased sampling of positions and lengths (incl. requests of 4-300 KiB, slices at every 16-byte alignment, key/nonce at odd addresses, calls cut in two or three, a pre-history on the instance), all six dispatch levels forced through hook H1.",
        "Trusts the reference model and the forcing hook; keys/nonces/positions are sampled.",
        "case = (cipher type, forced backend, key/nonce pattern seed, absolute position, length), drawn with boundary bias (every pos mod 64; block indices 0..4, 2^32+-5, "
        "the last blocks of the stream, random); one evaluation = one seek+apply_keystream compared with the reference and canary-checked; distinct = distinct descriptor, "
        "non-trivial = length >= 1",
        (50000, 1000000), [REF, FORCE, SAMPLED], require_classes=["posmod64=0", "posmod64=63"]),
    "C02": P(
        "runtime history monitor: random seek/apply/re-apply/current_pos histories checked op by op against a shadow position model + reference keystream, debug and release",
        "Exploration of histories: each op's return value, every produced byte and the reported position are decided by a 15-line shadow model (absolute position, stream limit) and the reference keystream.",
        "Trusts the reference model; histories are sampled with bias to mid-block seeks, block/stream boundaries and every SeekNum type.",
        "case = one history of 1..40 ops over {seek(T,p), apply(n), re-apply at the same position, current_pos::<T>, snapshot / restore of the public state field} on one cipher instance, or one single apply_keystream call on more than 2^32 bytes (compared in windows); evaluations = ops whose outcome the model decided; "
        "distinct = distinct history descriptor, non-trivial = at least 2 ops of 2 different kinds",
        (200000, 5000000), [REF, SAMPLED, "positions beyond 2^64 on 64-bit-counter ciphers are outside the property's wording: either outcome is accepted there"],
        primary=("std-rel", "std-dbg"), require_classes=["state=pending", "state=buffered", "state=empty"]),
    "C03": P(
        "runtime differential monitor over build configurations: one seeded transcript executed on every forced backend of every build (std dispatch, portable, five no-std arms) vs reference models, plus cross-configuration digest comparison",
        "Exploration: the same transcript (ChaCha wide+narrow, BLAKE x4, JH digests, JH F8, and a generic vector kernel written against the Machine traits with distinct lanes through every constructor) is run in 7+ build configurations and 6 forced dispatch levels; each output is compared with the reference and the rolling digests of all configurations are cross-checked.",
        "Trusts the reference models, hook H1 and that -Ctarget-feature selects the no-std arm named in the evidence.",
        "case = (algorithm kind, seed) x (configuration, forced backend); one evaluation = one output compared with the reference; distinct = distinct (case, backend) descriptor; every cell of the configuration x backend x algorithm matrix must be non-zero",
        (20000, 400000), [REF, FORCE, SAMPLED], primary=("std-rel", "portable-rel"),
        require_classes=["matrix/std-dispatch-rel/sse2/blake", "matrix/std-dispatch-rel/avx2/chacha", "matrix/std-dispatch-rel/ssse3/jh", "matrix/portable-rel/auto/blake", "matrix/std-dispatch-rel/sse41/jh-f8", "matrix/std-dispatch-rel/avx/chacha"]),
    "C04": P(
        "runtime differential monitor: Digest::digest vs reference BLAKE over every length 0..3*block+8 and random messages, all forced backends, debug/release/portable",
        "Exploration: every digest computed is compared with an independent scalar BLAKE (own constants computed from pi / square roots).",
        "Trusts the reference BLAKE (checked against the BLAKE submission vectors).",
        "case = (variant, forced backend, length, content pattern); systematic sweep of every length 0..3*bs+8 x 3 contents partitioned over shards, then random lengths up to 20 KB; distinct = distinct descriptor (all have a distinct message)",
        (20000, 500000), [REF, FORCE, SAMPLED], require_classes=["Blake384/", "Blake512/", "Blake224/", "Blake256/"]),
    "C05": P(
        "runtime differential monitor: 153 Skein instantiations (51 output sizes: every residue mod 8, residues mod 2^8 and 2^16 around the block sizes, up to 65600 bytes; x 3 state sizes) vs reference UBI/Threefish, every length 0..3*block+8 and random messages",
        "Exploration: every digest is compared with an independent Skein 1.3 built on an independent Threefish (forward permutation, own rotation table).",
        "Trusts the reference Skein (checked against the Skein 1.3 KATs and Threefish submission vectors). N is a type parameter: 51 values are instantiated.",
        "case = (state size, N, length, content pattern); systematic sweep over lengths for 10 values of N per state size, random for all 51; messages are structured (records with a common header, repeated / alternating blocks, one-bit, padding look-alikes) as well as random, read from odd addresses, fed one-shot, in partitions (cuts on block multiples), through clone / clone_from, on a long-lived reused instance; distinct = distinct descriptor",
        (20000, 500000), [REF, SAMPLED, "output sizes outside the instantiated menu of 51 values are not executed"]),
    "C06": P(
        "runtime differential monitor: JH digests and single F8 compressions (public Compressor and f8_impl::<M> on every machine) vs nibble-oriented reference E8",
        "Exploration: digests over every length 0..200 and random; F8 on random and one-hot/one-flip (state, block) pairs on every backend, compared with the specification-shaped (non-bit-sliced) reference.",
        "Trusts the reference JH (round constants generated, IVs derived; checked against the NIST KATs).",
        "case = digest (variant, backend, length, pattern) or F8 (path, backend, seed, one-hot bit); distinct = distinct descriptor",
        (15000, 300000), [REF, FORCE, SAMPLED], require_classes=["f8/f8_impl<", "f8/compressor-"]),
    "C07": P(
        "runtime differential monitor: Groestl digests vs byte-matrix reference over every length 0..3*block+8, the <=8-bytes-left boundary, 255/256/257-block messages and random",
        "Exploration: every digest is compared with an independent byte-matrix Groestl (S-box computed, MixBytes by field multiplication).",
        "Trusts the reference Groestl (checked against the NIST KATs). Only the AES-NI path is reachable on this host.",
        "case = (variant, length, content pattern); distinct = distinct descriptor",
        (10000, 200000), [REF, SAMPLED, "groestl's ssse3/sse2 fallback modules are not executed (autodetection always picks `aes` here)"],
        require_classes=["Groestl224/extra-padding-block", "Groestl512/extra-padding-block"]),
    "C08": P(
        "runtime history monitor: random update/clone/reset/finalize_reset/finalize histories over 15 hash types, each instance shadowed by the bytes fed to it; digests vs reference and one-shot",
        "Exploration of histories: at every finalize the digest must equal the reference digest of the shadow bytes and the implementation's own one-shot digest.",
        "Trusts the reference models; piece lengths are biased to buffer boundaries.",
        "case = one history of 2..24 ops {update, chain, clone, clone_from(dst, src), reset, three finalize_reset flavours, finalize} over up to 4 live clones of one hash type, one in six starting late in a very long message (hook H2); evaluations = finalizations compared; distinct = distinct history, non-trivial = >= 3 ops and at least one of clone/reset/finalize_reset/empty piece",
        (20000, 400000), [REF, SAMPLED], primary=("std-rel", "std-dbg")),
    "C09": P(
        "runtime differential monitor: Threefish encrypt_block vs reference Threefish, unrolled and no_unroll builds, debug and release",
        "Exploration: every ciphertext is compared with an independent Threefish (forward permutation pi, own tables).",
        "Trusts the reference Threefish (checked against the NIST-submission vectors).",
        "case = (block size, operand kind {zero, ones, one-hot, carry words, random, block cancels the first subkey, block equals the final subkey, one word equals a subkey word, degenerate key schedule}, seed, new()/with_tweak), blocks processed in place at byte offsets 0..15 of a larger buffer, one case in four also through encrypt_blocks / decrypt_blocks / *_par_blocks; distinct = distinct descriptor",
        (100000, 5000000), [REF, SAMPLED], primary=("std-rel", "nounroll-rel"), require_classes=["config=no_unroll-rel", "config=unrolled-rel"]),
    "C10": P(
        "runtime round-trip + differential monitor: decrypt(encrypt(x)) = x, encrypt(decrypt(x)) = x and decrypt vs the reference inverse, unrolled and no_unroll",
        "Exploration: both composition orders on the real code plus comparison of decrypt_block with an independently derived inverse.",
        "Trusts the reference inverse (derived step by step from the reference encryption).",
        "case as C09; 3 evaluations per case (two round trips, one differential)",
        (100000, 5000000), [REF, SAMPLED], primary=("std-rel", "nounroll-rel"), require_classes=["config=no_unroll-rel", "config=unrolled-rel"]),
    "C11": P(
        "runtime history monitor concentrated at 0, 2^32 blocks, 2^38 bytes and 2^64 bytes: limit-aware shadow model with post-conditions after every failing call",
        "Exploration of histories near the limits: exhaustion must be an error that leaves data, position and cipher intact; requests ending exactly at the limit succeed; no wrap.",
        "Trusts the reference model; same engine as C02 with a generator aimed at the boundaries.",
        "case = one history (as C02) with positions within a few blocks of the boundaries and request lengths ending 1 short of / at / past the limit, all seek types and out-of-range values",
        (200000, 5000000), [REF, SAMPLED], primary=("std-rel", "std-dbg"), require_classes=["state=pending/ietf-end", "seekty=u128/out-of-range", "seekty=i32/out-of-range"]),
    "C12": P(
        "runtime table monitor: every (machine, vector type, operation) triple required by the Machine trait bounds, plus the arithmetic the portable backend alone exposes on the 128-bit-word types, evaluated on structured + carry-chain + one-hot + random operands against a scalar lane model",
        "Exploration per triple; for the bit-permutation operations (rotates, shuffles, swaps, bswap) all one-hot inputs plus zero are evaluated, which determines a linear operation completely.",
        "Trusts the scalar lane model (plain integer arithmetic). Machines are instantiated inside #[target_feature] wrappers on an AVX2 host.",
        "case = (machine, type, op) with a seeded operand batch; evaluations = operands; distinct = distinct (machine, type, op, seed); the count of triples exercised is reported",
        (200000, 5000000), ["scalar lane model", SAMPLED], primary=("std-rel", "portable-rel")),
    "C13": P(
        "runtime table monitor: every construction / read-back path (lanes, storage views, the direct x86 view conversions u128xN -> u32x4xN / u64x2xN, insert/extract at every index, transpose4, to_scalars, LE/BE byte I/O, vzip) against little-endian packing",
        "Exploration per (machine, type, path) with position-revealing byte patterns, one-hot and random values.",
        "Trusts the lane model; storage views offered by only one backend are checked where offered.",
        "case = (machine, type, path) with a seeded batch; evaluations = values moved",
        (50000, 1000000), ["scalar lane model", SAMPLED], primary=("std-rel", "portable-rel")),
    "C14": P(
        "runtime differential monitor on the block API: refill4 vs 4 x refill (bytes and state) vs reference block with 0..10 double rounds, counters at every carry position, all forced backends, debug and release",
        "Exploration: pairwise (wide vs narrow) and against the reference block function with a 64-bit counter.",
        "Trusts the reference block function.",
        "case = (backend, key seed, nonce size, counter, stream id, double rounds); counters drawn around 0, 2^32 (carry in each of the four lanes) and 2^64",
        (50000, 2000000), [REF, FORCE, SAMPLED], primary=("std-rel", "std-dbg"), require_classes=["c14/sse2/lowword-near-2^32", "c14/avx2/ctr-near-2^64"]),
    "C15": P(
        "runtime history monitor on the block API: set/get/refill/refill4/stream-equality ops against a model state (key words, four d words) and model predicates",
        "Exploration of set/refill histories and state pairs differing in exactly one bit of one of the 12 words.",
        "Trusts the model predicates (transcribed from the property statement).",
        "case = one history of 2..19 ops; evaluations = ops",
        (50000, 2000000), [REF, SAMPLED], primary=("std-rel", "std-dbg"), require_classes=["c15/eq/key-word", "c15/eq/d1-counter-high", "c15/eq/d0-counter-low"]),
    "C16": P(
        "fault monitor: OS guard pages (mmap/mprotect) around every byte-slice argument at every alignment with inputs sealed read-only, plus ASan, Miri (Stacked Borrows) and valgrind memcheck runs of the same workload",
        "Exploration: a single byte read or written outside a slice, an aligned access to an unaligned address or a write to an input faults and kills the worker, which the driver attributes to the announced case; results also compared with the reference.",
        "Guard pages see accesses before the first / after the last byte; in-slice misbehaviour is covered by the result comparison. ASan/Miri/memcheck as configured in DESIGN section 5.",
        "case = (API family, algorithm/machine, backend, seed, length, placement {tail, head, interior offset 0..63}); vector load/store cases also pass slices of six wrong lengths (a refusal is fine, a call that returns must have stayed inside); distinct = distinct descriptor",
        (100000, 3000000), [REF, "guard pages detect out-of-slice accesses only at page granularity on the far side (head placement protects the front, tail placement the back)"],
        require_classes=["cipher/", "hash/", "tf/", "vec/", "f8/", "refill/", "hash/align=1", "cipher/align=63"]),
    "C17": P(
        "invariant-at-hook monitor (H2 counter conservation during real streaming across 2^8/2^16 blocks and 2^32 bits, and after single update() calls of more than 2^32 bytes on a ring-mapped window) + fast-forward differential against reference models with settable counters, instance reused after finalize_reset()/reset()",
        "Exploration: counters are observed after every update of real multi-hundred-MiB streams, and boundary crossings beyond what can be streamed are reached by overwriting both the implementation's and the reference's counter.",
        "Fast-forwarding assumes the hash state depends on the past only through (chaining value, counter, buffer), which is what the formats define.",
        "case = one real stream (hash, total, piece size), one single update() call of 2^32+k / 2^33+k bytes (counter, digest vs the same bytes in pieces, reference for BLAKE/Skein), or one fast-forward (hash, k real blocks, counter value, tail length, then reuse of the instance); evaluations = update calls observed / fast-forward digests compared",
        (3000, 60000), [REF, "between 2^32 and the format limits the counter is reached by hook H2, not by hashing exabytes"],
        require_classes=["stream/Groestl224", "stream/Blake256", "ff/Blake-bs128/2^64-bits-low-word-carry", "ff/Groestl-bs64/2^32-blocks", "ff/Skein-bs64/2^32-bytes", "ff/Jh-bs64/2^32-bits"]),
    "C18": P(
        "cold-process thread stress with barrier-released first calls (shared and per-thread data) compared with reference results, in run-time-dispatch and no-std builds; ThreadSanitizer build and Miri data-race detector (many seeds) on the same worker; hand-off of live instances between threads; interleaved-instances shadow check",
        "Exploration of schedules: each trial is a fresh process in which T threads make their first calls concurrently (lockstep or random order); the evidence counts entry points that were really entered concurrently.",
        "Race detection is limited to what TSan / Miri intercept and to schedules that occurred; weak-memory outcomes beyond x86-TSO / Miri's model are out of reach.",
        "case = one cold process (threads, order mode, seed; one in three a bulk trial with 4-64 KiB per cipher call), one hand-off trial (instances in mid-stream / mid-message passed between fresh threads for 1-3 rounds), one constructor-stress trial (8 threads building and using objects from their own keys, 400 x budget iterations each) or one interleaving of up to 12 instances; evaluations = results compared; distinct_nontrivial = distinct observed before/after interleavings of concurrent first calls at a one-time-initialised entry point",
        (20000, 1000000), [REF, "schedules are sampled by the OS / Miri scheduler, not enumerated"],
        require_classes=["first-call-overlap/Groestl256/", "interleave/instances="]),
    "C19": P(
        "runtime table monitor: every public method of the five ppv-null types against plain wrapping scalar arithmetic, debug (overflow-checked) and release",
        "Exploration per (type, method) on zero / all-ones / one-hot / MAX+1 / random operands and every rotation amount 1..bits-1; the operand of a value-returning method is used again afterwards.",
        "Trusts plain scalar arithmetic.",
        "case = (type, method) with a seeded batch; evaluations = operand tuples",
        (50000, 2000000), ["plain wrapping scalar arithmetic as the oracle", SAMPLED], primary=("std-rel", "std-dbg")),
}


def jobs(pid, tier, seed):
    q = tier == "quick"
    js = []
    if pid == "C01":
        js += J(pid, "std-rel", 8, 20000 if q else 1200000)
        js += J(pid, "std-dbg", 4, 8000 if q else 300000)
        js += J(pid, "portable-rel", 2, 8000 if q else 400000)
        if not q:
            js += J(pid, "portable-dbg", 2, 100000)
            for c in NOSTD:
                js += J(pid, c, 2, 200000)
            js += J(pid, "asan", 4, 50000)
    elif pid in ("C02", "C11"):
        js += J(pid, "std-rel", 6, 4000 if q else 1000000, huge=1)  # + the single calls on > 4 GiB
        js += J(pid, "std-dbg", 6, 3000 if q else 300000)
        js += J(pid, "portable-rel", 2, 2000 if q else 100000)
        js += J(pid, "portable-dbg", 2, 1000 if q else 30000)
        if not q:
            js += J(pid, "asan", 2, 20000)
            js += J(pid, "miri", 4, 6, timeout=3600)
    elif pid == "C03":
        n = 600 if q else 80000
        for c in ["std-rel", "portable-rel", "native-rel"] + NOSTD + ([] if q else ["std-dbg", "portable-dbg"]):
            js += J(pid, c, 4, n)
    elif pid in ("C04", "C05", "C06", "C07"):
        big = pid in ("C04", "C05")
        js += J(pid, "std-rel", 8, (3000 if big else 1500) if q else (250000 if big else 60000), huge=1)  # shard 0: + one call on > 2^32 bytes
        js += J(pid, "std-dbg", 4, (1000 if big else 500) if q else (60000 if big else 15000))
        if pid in ("C04", "C06"):
            js += J(pid, "portable-rel", 2, 1000 if q else 15000)
            if q:
                js += J(pid, "nostd-sse2", 1, 600)  # a compile-time dispatch arm in the quick tier too
            if not q:
                for c in NOSTD:
                    js += J(pid, c, 1, 8000)
        if pid == "C05":
            js += J(pid, "nounroll-rel", 2, 1500 if q else 20000)
        # statically selected CPU features (target-cpu=native: cfg(target_feature) paths)
        js += J(pid, "native-rel", 1, 1000 if q else 15000)
        if not q:
            js += J(pid, "asan", 2, 4000)
            js += J(pid, "miri", 4, 6, timeout=3600)
    elif pid == "C08":
        js += J(pid, "std-rel", 8, 1500 if q else 150000)
        js += J(pid, "std-dbg", 4, 800 if q else 40000)
        js += J(pid, "portable-rel", 2, 800 if q else 40000)
        if not q:
            js += J(pid, "asan", 2, 3000)
            js += J(pid, "miri", 4, 3, timeout=3600)
    elif pid in ("C09", "C10"):
        js += J(pid, "std-rel", 6, 12000 if q else 5000000)
        js += J(pid, "std-dbg", 3, 6000 if q else 300000)
        js += J(pid, "nounroll-rel", 4, 12000 if q else 5000000)
        # compile-time feature selection: AVX2 and everything this host has
        js += J(pid, "nostd-avx2", 1, 6000 if q else 300000)
        js += J(pid, "native-rel", 1, 6000 if q else 300000)
        if not q:
            js += J(pid, "nounroll-dbg", 3, 300000)
            js += J(pid, "miri", 2, 6, timeout=3600)
    elif pid in ("C12", "C13"):
        n = 1000 if q else 40000
        js += J(pid, "std-rel", 5, n)
        js += J(pid, "std-dbg", 5, n // 2)
        js += J(pid, "portable-rel", 1, n)
        js += J(pid, "portable-dbg", 1, n // 2)
        # statically enabled CPU features change which code the machine types compile to
        js += J(pid, "native-rel", 1, n)
        js += J(pid, "nostd-ssse3", 1, n)
        if not q:
            js += J(pid, "std-rel", 20, n)  # more operand seeds
            js += J(pid, "miri", 1, 8, timeout=3600)
    elif pid in ("C14", "C15"):
        js += J(pid, "std-rel", 6, 10000 if q else 2000000)
        js += J(pid, "std-dbg", 6, 5000 if q else 500000)
        js += J(pid, "portable-rel", 2, 4000 if q else 100000)
        js += J(pid, "portable-dbg", 2, 2000 if q else 30000)
        if q:
            js += J(pid, "nostd-ssse3", 1, 3000)  # a compile-time dispatch arm in the quick tier too
        if not q:
            for c in NOSTD:
                js += J(pid, c, 1, 100000)
    elif pid == "C16":
        js += J(pid, "std-rel", 10, 12000 if q else 600000)
        js += J(pid, "portable-rel", 2, 6000 if q else 100000)
        js += J(pid, "std-dbg", 2, 4000 if q else 50000)
        js += J(pid, "asan", 2, 4000 if q else 100000)
        js += J(pid, "miri", 2 if q else 8, 24 if q else 80, timeout=3600)
        if not q:
            js += J(pid, "valgrind", 4, 3000, timeout=3600)
            for c in NOSTD:
                js += J(pid, c, 1, 50000)
    elif pid == "C17":
        # streams are partitioned over the shards of the std-rel job; fast-forward everywhere
        js += J(pid, "std-rel", 12 if q else 18, 300 if q else 5000, timeout=3600)
        js += J(pid, "std-dbg", 4, 300 if q else 5000, streams=0)
        js += J(pid, "portable-rel", 2, 200 if q else 2000, streams=0)
    elif pid == "C18":
        js += J(pid, "std-rel", 120 if q else 6000, 150 if q else 300, timeout=600)
        js += J(pid, "std-dbg", 24 if q else 600, 60, timeout=600)
        js += J(pid, "tsan", 16 if q else 600, 40, timeout=900)
        # compile-time dispatch (no-std arm of the client crates): their one-time initialisation differs
        js += J(pid, "nostd-avx2", 24 if q else 600, 60, timeout=600)
        mj = J(pid, "miri", 1 if q else 4, 1, timeout=3600, part="threads")
        for k, j in enumerate(mj):
            j["env"] = {"MIRIFLAGS": "-Zmiri-many-seeds=%d..%d" % (64 * k, 64 * k + (12 if q else 32))}
        js += mj
    elif pid == "C19":
        n = 2000 if q else 200000
        js += J(pid, "std-dbg", 6, n)
        js += J(pid, "std-rel", 6, n)
        if not q:
            js += J(pid, "miri", 1, 12, timeout=3600)
    # a big-endian target (s390x) interpreted by Miri: the portable code paths under
    # cfg(target_endian = "big") and every byte-order assumption (quick: two cheap slices)
    be = {"C09": 6, "C13": 6} if q else {"C01": 8, "C02": 6, "C04": 6, "C05": 6, "C06": 4, "C08": 3, "C09": 12, "C10": 12, "C11": 6,
                                          "C12": 6, "C13": 8, "C14": 8, "C15": 8, "C19": 12}
    if pid in be:
        js += J(pid, "miri-be", 1, be[pid], timeout=3600)
    for j in js:
        j["args"]["seed"] = seed
        j["args"]["tier"] = tier
    return js


# ------------------------------------------------------------------------------------------
# C20: the declared feature lattice (exhaustive) + per-configuration conformance (runtime)

PROPS["C20"] = P(
    "monitor over build executions: cargo check of the complete declared feature lattice of all 9 crates (44 effective feature sets, guard off) + the same conformance transcript vs reference models in every semantically distinct runtime configuration",
    "The build lattice is a finite space and is enumerated completely; the runtime half is an exploration: std dispatch, two no-std compile-time arms, no_simd and no_unroll builds all run one transcript against the reference models.",
    "A successful `cargo check` on the stable toolchain for x86-64 is taken as 'compiles'. The rustcrypto_api feature only adds a module; results with it off are covered through the guts API (C14/C15).",
    "lattice point = (crate, effective feature set) for every subset of the crate's declared features with default features off (44 points; observation = cargo exit status); "
    "conformance case = (algorithm, parameters) compared with the reference in each configuration; distinct_nontrivial = distinct conformance cases + non-default lattice points",
    (2000, 40000), [REF, "stable toolchain, x86-64 target, offline registry"], primary=("std-rel",),
    require_classes=["conformance/std-dispatch-rel/", "conformance/portable-rel/", "conformance/nostd-sse2-rel/", "conformance/std-dispatch-rel+no_unroll/"])

LATTICE = {
    # crate: (manifest dir under /repo, declared features excluding `default`)
    "c2-chacha": ("stream-ciphers/chacha", ["std", "rustcrypto_api", "no_simd", "simd"]),
    "ppv-lite86": ("utils-simd/ppv-lite86", ["std", "simd", "no_simd"]),
    "crypto-simd": ("utils-simd/crypto-simd", ["simd", "std", "packed_simd"]),
    "blake-hash": ("hashes/blake", ["simd", "std"]),
    "groestl-aesni": ("hashes/groestl", ["std"]),
    "jh-x86_64": ("hashes/jh", ["std"]),
    "threefish-cipher": ("block-ciphers/threefish", ["no_unroll"]),
    "skein-hash": ("hashes/skein", []),
    "ppv-null": ("utils-simd/ppv-null", []),
}


def lattice_points():
    import itertools, re, os
    pts = []
    for crate, (d, feats) in LATTICE.items():
        # the declared feature list is re-read from the manifest so that a feature added later is not missed
        declared = list(feats)
        try:
            txt = open(os.path.join("/repo", d, "Cargo.toml")).read()
            m = re.search(r"^\[features\]\s*$(.*?)(^\[|\Z)", txt, re.S | re.M)
            if m:
                for line in m.group(1).splitlines():
                    k = line.split("=")[0].strip()
                    if k and not k.startswith("#") and k != "default" and k not in declared:
                        declared.append(k)
        except OSError:
            pass
        for r in range(len(declared) + 1):
            for sub in itertools.combinations(sorted(declared), r):
                pts.append((crate, ",".join(sub)))
    return pts


def c20(drv, pid, tier, seed):
    import os, subprocess, time
    from concurrent.futures import ThreadPoolExecutor
    t0 = time.time()
    pts = lattice_points()
    env = drv.clean_env()
    env.pop("RUSTFLAGS", None)  # the repository's own .cargo/config.toml applies; verification guard OFF

    def one(arg):
        k, (crate, feats) = arg
        e = dict(env)
        e["CARGO_TARGET_DIR"] = os.path.join(drv.BUILD, "c20-%d" % (k % 4))
        cmd = ["cargo", "check", "-p", crate, "--no-default-features", "--offline"] + (["--features", feats] if feats else [])
        p = subprocess.run(cmd, cwd="/repo", env=e, stdout=subprocess.PIPE, stderr=subprocess.STDOUT, text=True)
        return crate, feats, p.returncode, " ".join(cmd), p.stdout[-1500:]

    # four target dirs => four cargo invocations can run side by side
    buckets = [[], [], [], []]
    for k, pt in enumerate(pts):
        buckets[k % 4].append((k, pt))

    def run_bucket(b):
        return [one(x) for x in b]

    with ThreadPoolExecutor(max_workers=4) as ex:
        results = [r for rs in ex.map(run_bucket, buckets) for r in rs]
    viol = []
    table = []
    for crate, feats, rc, cmd, out in sorted(results):
        table.append(dict(crate=crate, features=feats or "(none)", status="ok" if rc == 0 else "FAILED"))
        if rc != 0:
            err = [l for l in out.splitlines() if l.startswith("error")]
            viol.append(dict(sig="C20|build|%s|features=%s" % (crate, feats or "(none)"), case="cd /repo && " + cmd, config="lattice",
                             detail="cargo check failed: " + (err[0] if err else out[-300:])))
    nondefault = len([1 for c, f in pts]) - len(LATTICE)
    extra = dict(lattice=table, lattice_points=len(pts), lattice_ok=len([1 for t in table if t["status"] == "ok"]),
                 lattice_exhaustive=True, evaluations_add=len(pts), distinct_add=max(nondefault, 0),
                 samples_add=["cargo check -p %s --no-default-features --features '%s'" % pts[len(pts) // 2], "cargo check -p %s --no-default-features --features '%s'" % pts[0]])
    q = tier == "quick"
    n = 400 if q else 30000
    js = []
    if not q:
        js += J(pid, "miri-be", 1, 18, timeout=3600)
    for cfg in ["std-rel", "std-dbg", "portable-rel", "nounroll-rel", "nostd-sse2", "nostd-avx2", "native-rel"] + ([] if q else ["portable-dbg", "nostd-ssse3", "nostd-sse41", "nostd-avx", "nounroll-dbg"]):
        js += J(pid, cfg, 2, n)
    for j in js:
        j["args"]["seed"] = seed
        j["args"]["tier"] = tier
    return drv.run_jobs(pid, tier, seed, PROPS[pid], js, t0, extra_cov=extra, extra_viol=viol)


CUSTOM = {"C20": c20}
