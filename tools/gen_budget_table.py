#!/usr/bin/env python3
"""Regenerate the as-built job table of DESIGN.md section 11 from tools/plan.py."""
import os, re, sys
ROOT = os.path.dirname(os.path.dirname(os.path.abspath(__file__)))
sys.path.insert(0, os.path.join(ROOT, "tools"))
import plan
rows = []
for pid in ["C%02d" % i for i in range(1, 21)]:
    cells = []
    for tier in ("quick", "thorough"):
        if pid == "C20":
            cells.append("44 `cargo check` lattice points + conformance transcript in %s configurations" % ("6" if tier == "quick" else "11"))
            continue
        agg = {}
        for j in plan.jobs(pid, tier, 1):
            a = agg.setdefault(j["config"], [0, 0])
            a[0] += 1
            a[1] = j["args"]["budget"]
        cells.append(", ".join("%s %dx%s" % (c, n, b) for c, (n, b) in agg.items()))
    rows.append("| %s | %s | %s |" % (pid, cells[0], cells[1]))
tbl = "| id | quick: configuration shards x budget per shard | thorough |\n|---|---|---|\n" + "\n".join(rows)
p = os.path.join(ROOT, "DESIGN.md")
s = open(p).read()
if "<!-- BUDGET-TABLE-BEGIN -->" in s:
    s = re.sub(r"<!-- BUDGET-TABLE-BEGIN -->.*?<!-- BUDGET-TABLE-END -->", lambda m: "<!-- BUDGET-TABLE-BEGIN -->\n" + tbl + "\n<!-- BUDGET-TABLE-END -->", s, flags=re.S)
else:
    s = s.replace("**Costs [measured, 16 cores].**", "**Jobs per check (generated from `tools/plan.py`; budget = cases per shard, for C12/C13/C19 operands per table cell, for C18 mixed operations per thread with one cold process per shard).**\n\n<!-- BUDGET-TABLE-BEGIN -->\n" + tbl + "\n<!-- BUDGET-TABLE-END -->\n\n**Costs [measured, 16 cores].**")
open(p, "w").write(s)
print("ok")
