//! C18 — results are unaffected by concurrent first use and by interleaving of instances.
//!
//! One worker process = one cold-start trial: expected values are computed with the reference
//! models only (nothing of cryptocorrosion has run, so CPU-feature detection and Groestl's
//! lazy_static function pointers are untouched), then T threads are released by a barrier and each
//! makes its *first* call into every entry point in its own random order, followed by a batch
//! of mixed operations; every result is compared. A second part drives up to 12 live instances
//! of mixed types round-robin in one thread, each against its own shadow. Race oracles: the
//! TSan build and Miri (`-Zmiri-many-seeds`) run the same worker.

use super::Ctx;
use crate::api::{self, Fam, HashId};
use crate::log::{guarded, Desc};
use crate::prng::{fnv, mix, Rng};
use crate::refmodel::chacha::RefStream;
use crate::refmodel::threefish as rtf;
use cipher::generic_array::GenericArray;
use cipher::BlockEncrypt;
use std::sync::atomic::{AtomicU64, Ordering};
use std::sync::{Arc, Barrier, Mutex};

#[derive(Clone)]
enum Task {
    Hash { id: HashId, msg: Vec<u8>, exp: Vec<u8> },
    Cipher { ty: &'static str, key: [u8; 32], nonce: Vec<u8>, pos: u64, data: Vec<u8>, exp: Vec<u8> },
    Tf { nb: usize, key: Vec<u8>, t0: u64, t1: u64, blk: Vec<u8>, exp: Vec<u8> },
    /// one keyed instance shared by all threads (`encrypt_block(&self)`, `decrypt_block(&self)`)
    TfShared { fish: Arc<threefish_cipher::Threefish512>, blk: Vec<u8>, exp: Vec<u8> },
}

impl Task {
    fn entry(&self) -> String {
        match self {
            Task::Hash { id, .. } => id.name(),
            Task::Cipher { ty, data, .. } => format!("{}-{}", ty, if data.len() >= 4096 { "bulk" } else if data.len() >= 256 { "wide" } else { "narrow" }),
            Task::Tf { nb, .. } => format!("Threefish{}", nb * 8),
            Task::TfShared { .. } => "Threefish512-shared-instance".to_string(),
        }
    }
    fn run(&self) -> Result<(), String> {
        match self {
            Task::Hash { id, msg, exp } => {
                // incremental in two pieces, to involve the buffer too; the message is read from an
                // odd offset of a buffer of this call's own (a payload behind a header)
                let off = 1 + msg.len() % 15;
                let mut store = vec![0u8; msg.len() + 16];
                store[off..off + msg.len()].copy_from_slice(msg);
                let msg = &store[off..off + msg.len()];
                let mut h = id.new();
                let cut = msg.len() / 3;
                h.update(&msg[..cut]);
                h.update(&msg[cut..]);
                let got = h.finalize_box();
                if &got != exp {
                    return Err(format!("{} digest of {} bytes differs from the single-threaded reference result", id.name(), msg.len()));
                }
            }
            Task::Cipher { ty, key, nonce, pos, data, exp } => {
                let mut c = api::new_cipher(ty, key, nonce);
                let mut d = data.clone();
                c.try_seek(api::SeekTy::U64, *pos as u128, false).map_err(|_| "seek failed".to_string())?;
                c.try_apply(&mut d).map_err(|_| "apply failed".to_string())?;
                if &d != exp {
                    return Err(format!("{} keystream ({} bytes at {}) differs from the single-threaded reference result", ty, data.len(), pos));
                }
            }
            Task::TfShared { fish, blk, exp } => {
                use cipher::BlockDecrypt;
                let mut b = blk.clone();
                fish.encrypt_block(GenericArray::from_mut_slice(&mut b));
                if &b != exp {
                    return Err("Threefish-512 on an instance shared between threads differs from the single-threaded reference result".to_string());
                }
                fish.decrypt_block(GenericArray::from_mut_slice(&mut b));
                if &b != blk {
                    return Err("Threefish-512 decrypt on an instance shared between threads does not restore the block".to_string());
                }
            }
            Task::Tf { nb, key, t0, t1, blk, exp } => {
                let mut b = blk.clone();
                match nb {
                    32 => threefish_cipher::Threefish256::with_tweak(GenericArray::from_slice(key), *t0, *t1).encrypt_block(GenericArray::from_mut_slice(&mut b)),
                    64 => threefish_cipher::Threefish512::with_tweak(GenericArray::from_slice(key), *t0, *t1).encrypt_block(GenericArray::from_mut_slice(&mut b)),
                    _ => threefish_cipher::Threefish1024::with_tweak(GenericArray::from_slice(key), *t0, *t1).encrypt_block(GenericArray::from_mut_slice(&mut b)),
                }
                if &b != exp {
                    return Err(format!("Threefish-{} differs from the single-threaded reference result", nb * 8));
                }
            }
        }
        Ok(())
    }
}

/// Under Miri the reference models are too slow to run before every trial: the expected values
/// come from the published KAT files instead (no cryptocorrosion code runs, the process stays cold).
#[allow(dead_code)]
fn make_hash_kat(r: &mut Rng, id: HashId) -> Task {
    let pairs = crate::refmodel::kat_pairs(&id.name());
    let n = pairs.len().min(12) as u64;
    let (m, d) = pairs[r.below(n) as usize];
    Task::Hash { id, msg: m.to_vec(), exp: d.to_vec() }
}

fn make_hash(r: &mut Rng, id: HashId, maxlen: u64) -> Task {
    if cfg!(miri) {
        return make_hash_kat(r, id);
    }
    let n = r.below(maxlen) as usize;
    let msg = r.bytes(n);
    let exp = id.reference(&msg);
    Task::Hash { id, msg, exp }
}
fn make_cipher(r: &mut Rng, ty: &'static str, len: usize) -> Task {
    let (layout, dr, nlen) = api::cipher_params(ty);
    let (key, nonce) = super::key_nonce(r.u64(), nlen);
    let pos = r.below(1 << 20);
    let data = r.bytes(len);
    let mut exp = data.clone();
    RefStream::new(layout, dr, &key, &nonce).xor(pos as u128, &mut exp);
    Task::Cipher { ty, key, nonce, pos, data, exp }
}
fn make_tf(r: &mut Rng, nb: usize) -> Task {
    let key = r.bytes(nb);
    let blk = r.bytes(nb);
    let (t0, t1) = (r.u64(), r.u64());
    let exp = rtf::encrypt(&key, t0, t1, &blk);
    Task::Tf { nb, key, t0, t1, blk, exp }
}

/// One task per one-time-initialised entry point.
fn entry_tasks(r: &mut Rng, bulk: bool) -> Vec<Task> {
    let small = cfg!(miri);
    let mut v = Vec::new();
    let h = |fam, bits| HashId { fam, bits, out: if fam == Fam::Skein { 32 } else { bits as usize / 8 } };
    if small {
        for id in [h(Fam::Groestl, 256), h(Fam::Groestl, 512), h(Fam::Blake, 256), h(Fam::Jh, 256)] {
            if id.fam == Fam::Groestl && !cfg!(target_arch = "x86_64") {
                continue;
            }
            v.push(make_hash(r, id, 40));
        }
        v.push(make_cipher(r, "ChaCha20", 70));
        v.push(make_cipher(r, "XChaCha8", 260));
        return v;
    }
    // one trial in three is a "bulk" trial: requests of several KiB per call, so that code paths
    // reserved for large inputs (and anything they share between threads) run concurrently too
    let hl = |n: u64| if bulk { 12 * n } else { n };
    for bits in [224u32, 256, 384, 512] {
        v.push(make_hash(r, h(Fam::Groestl, bits), hl(400)));
        v.push(make_hash(r, h(Fam::Blake, bits), hl(400)));
    }
    v.push(make_hash(r, h(Fam::Jh, 256), hl(300)));
    v.push(make_hash(r, h(Fam::Jh, 512), hl(300)));
    v.push(make_hash(r, h(Fam::Skein, 512), hl(300)));
    v.push(make_hash(r, h(Fam::Skein, 1024), hl(300)));
    // output longer than the state (several counter-mode output blocks), two lengths per state size
    for (bits, out) in [(256u32, 100usize), (256, 65), (512, 129), (512, 200), (1024, 300), (1024, 257)] {
        v.push(make_hash(r, HashId { fam: Fam::Skein, bits, out }, hl(200)));
    }
    if bulk {
        v.push(make_cipher(r, "ChaCha20", 4096));
        v.push(make_cipher(r, "ChaCha8", 16384 + 700));
        v.push(make_cipher(r, "Ietf", 8192 + 17));
        v.push(make_cipher(r, "XChaCha12", 5000));
        v.push(make_cipher(r, "ChaCha12", 65536));
    } else {
        v.push(make_cipher(r, "ChaCha20", 100));
        v.push(make_cipher(r, "ChaCha8", 700));
        v.push(make_cipher(r, "Ietf", 300));
        v.push(make_cipher(r, "XChaCha12", 64));
    }
    v.push(make_tf(r, 32));
    v.push(make_tf(r, 128));
    if let Task::Tf { key, t0, t1, blk, exp, .. } = make_tf(r, 64) {
        let fish = Arc::new(threefish_cipher::Threefish512::with_tweak(GenericArray::from_slice(&key), t0, t1));
        v.push(Task::TfShared { fish, blk, exp });
    }
    v
}

/// A cipher in mid-stream and a hasher in mid-message, passed from one thread to the next.
struct HandOff {
    ty: &'static str,
    layout: crate::refmodel::chacha::Layout,
    dr: u32,
    key: [u8; 32],
    nonce: Vec<u8>,
    pos: u128,
    ci: Box<dyn api::DynCipher + Send>,
    hid: HashId,
    hh: Box<dyn api::DynHash + Send>,
    fed: Vec<u8>,
}

/// Hand-off: instances that are in the middle of their stream / message on one thread are
/// continued by the next thread, for a few rounds (the types are Send: nothing a thread keeps
/// for itself may be part of an instance's state). Fresh threads; in a *symmetric* trial every
/// worker serves the same kind of request at the same position with its own key, as the workers
/// of a pool do.
/// A barrier a peer may fail to reach (if it panicked): waiting gives up after 20 s, so the
/// others finish and report instead of hanging until the watchdog fires.
struct SoftBarrier {
    arrived: AtomicU64,
    n: u64,
}
impl SoftBarrier {
    fn wait(&self, generation: u64) -> bool {
        self.arrived.fetch_add(1, Ordering::SeqCst);
        let t0 = std::time::Instant::now();
        while self.arrived.load(Ordering::SeqCst) < self.n * (generation + 1) {
            if t0.elapsed().as_secs() >= 20 {
                return false;
            }
            std::thread::yield_now();
        }
        true
    }
}

fn trial_handoff(cx: &mut Ctx, nthreads: usize, seed: u64) {
    let symmetric = seed & 1 == 0;
    let rounds = 1 + (seed >> 1) as usize % 3;
    cx.log.class(&format!("hand-off/{}/rounds={}", if symmetric { "symmetric-workers" } else { "mixed" }, rounds));
    let slots: Arc<Mutex<Vec<Option<HandOff>>>> = Arc::new(Mutex::new((0..nthreads).map(|_| None).collect()));
    let barrier = Arc::new(SoftBarrier { arrived: AtomicU64::new(0), n: nthreads as u64 });
    let errors: Arc<Mutex<Vec<String>>> = Arc::new(Mutex::new(Vec::new()));
    let mut hs = Vec::new();
    for t in 0..nthreads {
        let (slots, barrier, errors) = (slots.clone(), barrier.clone(), errors.clone());
        hs.push(std::thread::spawn(move || {
            let res = guarded(|| -> Result<(), String> {
                // what all workers have in common in a symmetric trial comes from `seed` alone
                let mut cr = Rng::new(seed ^ 0x4a4d);
                let mut hr = Rng::new(mix(&[seed, t as u64, 0x4a4d]));
                let ty = api::CIPHERS[if symmetric { cr.below(7) } else { hr.below(7) } as usize];
                let (layout, dr, nlen) = api::cipher_params(ty);
                let (key, nonce) = super::key_nonce(hr.u64(), nlen);
                let cpos = [0u64, 0, 64, 200][cr.below(4) as usize] as u128;
                let cn = 1 + cr.below(255) as usize;
                let (pos, n1) = if symmetric { (cpos, cn) } else { (hr.below(1 << 20) as u128, 1 + hr.below(255) as usize) };
                // a worker that has found a problem keeps taking part in the barriers
                let mut err: Option<String> = None;
                let mut ci = api::new_cipher(ty, &key, &nonce);
                if pos != 0 && ci.try_seek(api::SeekTy::U64, pos, false).is_err() {
                    err.get_or_insert("seek failed".to_string());
                }
                let mut d = vec![0u8; n1];
                if ci.try_apply(&mut d).is_err() {
                    err.get_or_insert("apply failed".to_string());
                }
                let hid = if cfg!(miri) { HashId { fam: Fam::Blake, bits: 256, out: 32 } } else { *hr.pick(&api::hashes15(32)) };
                let mut hh = hid.new();
                let nf = 1 + hr.below(200) as usize;
                let first = hr.bytes(nf);
                hh.update(&first);
                let mut mine = Some(HandOff { ty, layout, dr, key, nonce, pos: pos + n1 as u128, ci, hid, hh, fed: first });
                for round in 0..rounds {
                    slots.lock().unwrap()[t] = mine.take();
                    barrier.wait(2 * round as u64);
                    let got = slots.lock().unwrap()[(t + 1 + round) % nthreads].take();
                    barrier.wait(2 * round as u64 + 1);
                    let mut g = match got {
                        Some(g) => g,
                        None => {
                            err.get_or_insert("nothing was handed over".to_string());
                            continue;
                        }
                    };
                    let n2 = if symmetric { 1 + cr.below(300) as usize } else { 1 + hr.below(700) as usize };
                    let data = hr.bytes(n2);
                    let mut d = data.clone();
                    if g.ci.try_apply(&mut d).is_err() {
                        err.get_or_insert("apply failed".to_string());
                    }
                    let mut e = data.clone();
                    RefStream::new(g.layout, g.dr, &g.key, &g.nonce).xor(g.pos, &mut e);
                    if d != e {
                        err.get_or_insert(format!("{} stream continued on another thread ({} bytes at {}, round {}) differs from the reference", g.ty, n2, g.pos, round));
                    }
                    g.pos += n2 as u128;
                    let nm = hr.below(300) as usize;
                    let more = hr.bytes(nm);
                    g.hh.update(&more);
                    g.fed.extend_from_slice(&more);
                    mine = Some(g);
                }
                if let Some(e) = err {
                    return Err(e);
                }
                let g = match mine.take() {
                    Some(g) => g,
                    None => return Err("nothing was handed over".to_string()),
                };
                // under Miri the reference models are too slow: compare with a fresh one-thread digest
                let exp = if cfg!(miri) { g.hid.oneshot(&g.fed) } else { g.hid.reference(&g.fed) };
                if g.hh.finalize_box() != exp {
                    return Err(format!("{} message continued on other threads gives a wrong digest", g.hid.name()));
                }
                Ok(())
            });
            match res {
                Ok(Ok(())) => {}
                Ok(Err(m)) => errors.lock().unwrap().push(format!("hand-off|instance-moved-between-threads|{}", m)),
                Err(p) => errors.lock().unwrap().push(format!("hand-off-panic|instance-moved-between-threads|{}", p)),
            }
        }));
    }
    let mut join_failed = false;
    for h in hs {
        join_failed |= h.join().is_err();
    }
    if join_failed {
        cx.log.violation("C18|thread-died", "a worker thread terminated abnormally");
    }
    cx.log.eval((nthreads * rounds * 2) as u64);
    cx.log.event("instances_handed_to_another_thread", (2 * nthreads * rounds) as u64);
    for e in errors.lock().unwrap().iter() {
        let mut p = e.splitn(3, '|');
        let (kind, entry, msg) = (p.next().unwrap(), p.next().unwrap(), p.next().unwrap_or(""));
        cx.log.violation(&format!("C18|{}|{}|{}", api::profile(), kind, entry), msg);
    }
}

/// Constructor stress: T threads build small objects from their *own* keys over and over
/// (Threefish through `new`, ciphers through `new`, hashers through `Default`) and use each once.
/// Whatever a constructor remembers between calls (a cached key schedule, subkey, IV) and shares
/// between threads shows as a result that belongs to another thread's parameters. Expected values
/// come from the reference models before the threads start.
fn trial_ctor_stress(cx: &mut Ctx, nthreads: usize, iters: usize, seed: u64) {
    use cipher::NewBlockCipher;
    struct P {
        tfk: Vec<(usize, Vec<u8>, Vec<u8>, Vec<u8>)>,            // (nb, key, block, expected)
        ck: Vec<(&'static str, [u8; 32], Vec<u8>, Vec<u8>)>,     // (type, key, nonce, expected keystream of block 0)
        hk: Vec<(HashId, Vec<u8>, Vec<u8>)>,                     // (hash, message, expected)
    }
    let mk = |t: usize| -> P {
        let mut r = Rng::new(mix(&[seed, 0xc7c7, t as u64]));
        let mut p = P { tfk: Vec::new(), ck: Vec::new(), hk: Vec::new() };
        for nb in [32usize, 64, 128] {
            for _ in 0..if cfg!(miri) { 1 } else { 2 } {
                let (key, blk) = (r.bytes(nb), r.bytes(nb));
                let exp = rtf::encrypt(&key, 0, 0, &blk);
                p.tfk.push((nb, key, blk, exp));
            }
        }
        for ty in ["XChaCha20", "ChaCha8", "Ietf", "XChaCha12"] {
            let (layout, dr, nlen) = api::cipher_params(ty);
            let (key, nonce) = super::key_nonce(r.u64(), nlen);
            let mut e = vec![0u8; 64];
            RefStream::new(layout, dr, &key, &nonce).xor(0, &mut e);
            p.ck.push((ty, key, nonce, e));
        }
        // under Miri only the models that are cheap to interpret supply expected values
        let menu = if cfg!(miri) { vec![HashId { fam: Fam::Blake, bits: 256, out: 32 }] } else { api::hashes15(32) };
        for _ in 0..if cfg!(miri) { 1 } else { 4 } {
            let id = *r.pick(&menu);
            let n = r.below(40) as usize;
            let m = r.bytes(n);
            let e = id.reference(&m);
            p.hk.push((id, m, e));
        }
        p
    };
    let params: Vec<Arc<P>> = (0..nthreads).map(|t| Arc::new(mk(t))).collect();
    let errors: Arc<Mutex<Vec<String>>> = Arc::new(Mutex::new(Vec::new()));
    let barrier = Arc::new(Barrier::new(nthreads));
    let mut hs = Vec::new();
    for t in 0..nthreads {
        let (p, errors, barrier) = (params[t].clone(), errors.clone(), barrier.clone());
        hs.push(std::thread::spawn(move || {
            barrier.wait();
            let r = guarded(|| -> Result<(), String> {
                for i in 0..iters {
                    match i % 3 {
                        0 => {
                            // the same parameters for a run of calls (a cache hit needs a repeat), then the next set
                            let (nb, key, blk, exp) = &p.tfk[(i / 3000) % p.tfk.len()];
                            let mut b = blk.clone();
                            match nb {
                                32 => threefish_cipher::Threefish256::new(GenericArray::from_slice(key)).encrypt_block(GenericArray::from_mut_slice(&mut b)),
                                64 => threefish_cipher::Threefish512::new(GenericArray::from_slice(key)).encrypt_block(GenericArray::from_mut_slice(&mut b)),
                                _ => threefish_cipher::Threefish1024::new(GenericArray::from_slice(key)).encrypt_block(GenericArray::from_mut_slice(&mut b)),
                            }
                            if &b != exp {
                                return Err(format!("Threefish{}::new(key of this thread) encrypted under something else (iteration {})", nb * 8, i));
                            }
                        }
                        1 => {
                            let (ty, key, nonce, exp) = &p.ck[(i / 3000) % p.ck.len()];
                            let mut d = vec![0u8; 64];
                            api::new_cipher(ty, key, nonce).try_apply(&mut d).map_err(|_| "apply failed".to_string())?;
                            if &d != exp {
                                return Err(format!("{}::new(key, nonce of this thread) produced another stream (iteration {})", ty, i));
                            }
                        }
                        _ => {
                            let (id, m, exp) = &p.hk[(i / 3000) % p.hk.len()];
                            let mut h = id.new();
                            h.update(m);
                            if &h.finalize_box() != exp {
                                return Err(format!("a new {} gave a wrong digest (iteration {})", id.name(), i));
                            }
                        }
                    }
                }
                Ok(())
            });
            match r {
                Ok(Ok(())) => {}
                Ok(Err(m)) => errors.lock().unwrap().push(format!("constructor-stress|fresh-object-per-call|{}", m)),
                Err(p) => errors.lock().unwrap().push(format!("constructor-stress-panic|fresh-object-per-call|{}", p)),
            }
        }));
    }
    for h in hs {
        let _ = h.join();
    }
    cx.log.eval((nthreads * iters) as u64);
    cx.log.event("objects_constructed_and_used_concurrently", (nthreads * iters) as u64);
    cx.log.class(&format!("constructor-stress/threads={}", nthreads));
    for e in errors.lock().unwrap().iter() {
        let mut p = e.splitn(3, '|');
        let (kind, entry, msg) = (p.next().unwrap(), p.next().unwrap(), p.next().unwrap_or(""));
        cx.log.violation(&format!("C18|{}|{}|{}", api::profile(), kind, entry), msg);
    }
}

fn trial_threads(cx: &mut Ctx, nthreads: usize, nmixed: usize, seed: u64) {
    let mut r = Rng::new(seed);
    let bulk = r.below(3) == 0;
    let tasks = Arc::new(entry_tasks(&mut r, bulk));
    // in half of the trials every thread has data of its own (same entry points, other keys and
    // messages): whatever leaks from one instance into another then shows in the results
    let private = !cfg!(miri) && (seed >> 4) & 1 == 0;
    let lists: Vec<Arc<Vec<Task>>> = (0..nthreads)
        .map(|t| if private && t > 0 { Arc::new(entry_tasks(&mut Rng::new(mix(&[seed, 0x7a5c, t as u64])), bulk)) } else { tasks.clone() })
        .collect();
    cx.log.class(if private { "data=per-thread" } else { "data=shared" });
    let nent = tasks.len();
    let barrier = Arc::new(Barrier::new(nthreads));
    let seq = Arc::new(AtomicU64::new(0));
    let errors: Arc<Mutex<Vec<String>>> = Arc::new(Mutex::new(Vec::new()));
    // (entry index, thread, before, after)
    let marks: Arc<Mutex<Vec<(usize, usize, u64, u64)>>> = Arc::new(Mutex::new(Vec::new()));
    let lockstep = seed % 3 != 0;
    let mut common: Vec<usize> = (0..nent).collect();
    for i in (1..nent).rev() {
        common.swap(i, r.below(i as u64 + 1) as usize);
    }
    let common = Arc::new(common);
    cx.log.class(if lockstep { "order=lockstep" } else { "order=per-thread-random" });
    let mut hs = Vec::new();
    for t in 0..nthreads {
        let (tasks, barrier, seq, errors, marks, common) = (lists[t].clone(), barrier.clone(), seq.clone(), errors.clone(), marks.clone(), common.clone());
        let tseed = mix(&[seed, t as u64]);
        hs.push(std::thread::spawn(move || {
            let mut r = Rng::new(tseed);
            // a per-thread random order of the first calls
            let mut order: Vec<usize> = (0..nent).collect();
            for i in (1..nent).rev() {
                order.swap(i, r.below(i as u64 + 1) as usize);
            }
            let mut local = Vec::new();
            barrier.wait();
            for (k, &e) in order.iter().enumerate() {
                // lockstep trials: every thread makes the same first call at the same moment
                let e = if lockstep {
                    barrier.wait();
                    common[k]
                } else {
                    e
                };
                let b = seq.fetch_add(1, Ordering::SeqCst);
                let res = guarded(|| tasks[e].run());
                let a = seq.fetch_add(1, Ordering::SeqCst);
                local.push((e, t, b, a));
                match res {
                    Ok(Ok(())) => {}
                    Ok(Err(m)) => errors.lock().unwrap().push(format!("first-call|{}|{}", tasks[e].entry(), m)),
                    Err(p) => errors.lock().unwrap().push(format!("first-call-panic|{}|{}", tasks[e].entry(), p)),
                }
            }
            for _ in 0..nmixed {
                let e = r.below(nent as u64) as usize;
                match guarded(|| tasks[e].run()) {
                    Ok(Ok(())) => {}
                    Ok(Err(m)) => errors.lock().unwrap().push(format!("later-call|{}|{}", tasks[e].entry(), m)),
                    Err(p) => errors.lock().unwrap().push(format!("later-call-panic|{}|{}", tasks[e].entry(), p)),
                }
            }
            marks.lock().unwrap().extend(local);
        }));
    }
    let mut join_failed = false;
    for h in hs {
        if h.join().is_err() {
            join_failed = true;
        }
    }
    cx.log.eval((nthreads * (nent + nmixed)) as u64);
    cx.log.event("threads_run", nthreads as u64);
    cx.log.event("first_calls", (nthreads * nent) as u64);
    if join_failed {
        cx.log.violation("C18|thread-died", "a worker thread terminated abnormally");
    }
    for e in errors.lock().unwrap().iter() {
        let mut p = e.splitn(3, '|');
        let (kind, entry, msg) = (p.next().unwrap(), p.next().unwrap(), p.next().unwrap_or(""));
        cx.log.violation(&format!("C18|{}|{}|{}", api::profile(), kind, entry), msg);
    }
    // what was actually observed: per entry point, how many threads were inside their first call
    // before the earliest one had returned, and the event order itself
    let marks = marks.lock().unwrap();
    for e in 0..nent {
        let mut m: Vec<&(usize, usize, u64, u64)> = marks.iter().filter(|x| x.0 == e).collect();
        if m.is_empty() {
            continue;
        }
        m.sort_by_key(|x| x.2);
        let first_done = m.iter().map(|x| x.3).min().unwrap();
        let inside = m.iter().filter(|x| x.2 < first_done).count();
        cx.log.class(&format!("first-call-overlap/{}/{}", tasks[e].entry(), if inside >= 4 { "4+".to_string() } else { inside.to_string() }));
        if inside >= 2 {
            cx.log.event("entry_points_entered_concurrently", 1);
        }
        // the interleaving of before/after events for this entry point
        let mut evs: Vec<(u64, usize, u8)> = Vec::new();
        for x in &m {
            evs.push((x.2, x.1, 0));
            evs.push((x.3, x.1, 1));
        }
        evs.sort();
        // rename threads by order of appearance so that the hash identifies the shape of the interleaving
        let mut names: Vec<usize> = Vec::new();
        let mut s = String::new();
        for (_, t, k) in evs {
            let id = match names.iter().position(|n| *n == t) {
                Some(i) => i,
                None => {
                    names.push(t);
                    names.len() - 1
                }
            };
            s.push_str(&format!("{}{},", if k == 0 { 'b' } else { 'a' }, id));
        }
        if inside >= 2 {
            cx.log.nontrivial_hash(fnv(format!("{}:{}", tasks[e].entry(), s).as_bytes()));
        }
    }
}

/// K live instances of mixed types driven in a random interleaving in one thread.
fn trial_interleave(cx: &mut Ctx, seed: u64) {
    let mut r = Rng::new(seed);
    let k = 2 + r.below(if cfg!(miri) { 3 } else { 11 }) as usize;
    enum Inst {
        H(HashId, Box<dyn api::DynHash>, Vec<u8>),
        C(&'static str, Box<dyn api::DynCipher>, RefStream, u128),
    }
    let menu = api::hashes15(32);
    let mut insts: Vec<Inst> = Vec::new();
    // half of the cipher instances share one key/nonce seed: distinct instances (of the same or
    // of different variants) built from identical parameters must still not see each other
    let shared = r.u64();
    for _ in 0..k {
        if r.below(3) == 0 {
            let ty = api::CIPHERS[r.below(7) as usize];
            let (layout, dr, nlen) = api::cipher_params(ty);
            let kseed = if r.below(2) == 0 { shared } else { r.u64() };
            // same seed => same key, and the shorter nonces are prefixes of the longer ones
            let (key, n24) = super::key_nonce(kseed, 24);
            let nonce = n24[..nlen].to_vec();
            insts.push(Inst::C(ty, api::new_cipher(ty, &key, &nonce), RefStream::new(layout, dr, &key, &nonce), 0));
        } else {
            let id = if cfg!(miri) { menu[r.below(12) as usize] } else { *r.pick(&menu) };
            insts.push(Inst::H(id, id.new(), Vec::new()));
        }
    }
    let steps = if cfg!(miri) { 8 } else { 60 };
    let mut desc = format!("k=interleave seed={} n={}", seed, k);
    desc.push_str(" types=");
    for i in &insts {
        desc.push_str(match i {
            Inst::H(id, ..) => match id.fam {
                Fam::Blake => "B",
                Fam::Groestl => "G",
                Fam::Jh => "J",
                Fam::Skein => "S",
            },
            Inst::C(..) => "c",
        });
    }
    cx.log.announce(&desc);
    cx.log.nontrivial();
    cx.log.class(&format!("interleave/instances={}", k));
    for _ in 0..steps {
        let i = r.below(k as u64) as usize;
        let n = if !cfg!(miri) && r.below(16) == 0 { 4096 + r.below(6000) as usize } else { r.below(if cfg!(miri) { 70 } else { 300 }) as usize };
        let data = r.bytes(n);
        cx.log.eval(1);
        match &mut insts[i] {
            Inst::H(_, h, sh) => {
                h.update(&data);
                sh.extend_from_slice(&data);
            }
            Inst::C(ty, c, rf, pos) => {
                let mut d = data.clone();
                if c.try_apply(&mut d).is_err() {
                    cx.log.violation("C18|interleave|cipher-error", "apply failed inside the keystream");
                    return;
                }
                let mut e = data.clone();
                rf.xor(*pos, &mut e);
                *pos += n as u128;
                if d != e {
                    cx.log.violation(&format!("C18|{}|interleave|cipher|{}", api::profile(), ty), "a cipher instance produced wrong bytes while other instances were driven in between");
                    return;
                }
            }
        }
    }
    for i in insts {
        if let Inst::H(id, h, sh) = i {
            let got = h.finalize_box();
            if got != id.reference(&sh) {
                cx.log.violation(&format!("C18|{}|interleave|hash|{}", api::profile(), id.name()), "a hash instance produced a wrong digest while other instances were driven in between");
                return;
            }
        }
    }
}

pub fn run(cx: &mut Ctx) {
    // only the reference models run before the threads start: the process stays cold
    cx.selftest(if cfg!(miri) { crate::refmodel::T_CHACHA } else { crate::refmodel::T_ALL });
    let seed = mix(&[cx.seed, cx.shard, 0xc18]);
    let mut r = Rng::new(seed);
    let part = cx.arg("part").unwrap_or("both").to_string();
    if part != "interleave" {
        let nthreads = cx.arg_u64("threads", if cfg!(miri) { 3 } else { *r.pick(&[2u64, 4, 8, 16, 32, 64]) }) as usize;
        let nmixed = if cfg!(miri) { 1 } else { cx.budget as usize };
        let d = format!("k=threads seed={} threads={} mixed={}", seed, nthreads, nmixed);
        cx.log.announce(&d);
        cx.log.class(&format!("threads={}", nthreads));
        trial_threads(cx, nthreads, nmixed, seed);
        // then, on fresh threads, instances handed from worker to worker
        let nh = if cfg!(miri) { 1 } else { 4 };
        for i in 0..nh {
            let hseed = mix(&[seed, 0x4a4d, i]);
            let nt = if cfg!(miri) { 2 } else { [2usize, 3, 4, 8][(hseed >> 8) as usize % 4] };
            cx.log.announce(&format!("k=handoff seed={} threads={}", hseed, nt));
            cx.log.nontrivial();
            trial_handoff(cx, nt, hseed);
        }
        // and objects built and used once, over and over, from each thread's own keys
        let (nt, iters) = if cfg!(miri) { (2, 6) } else { (8, 400 * cx.budget as usize) };
        let cseed = mix(&[seed, 0xc7c7]);
        cx.log.announce(&format!("k=ctor seed={} threads={} iters={}", cseed, nt, iters));
        cx.log.nontrivial();
        trial_ctor_stress(cx, nt, iters, cseed);
    }
    if part != "threads" {
        let n = if cfg!(miri) { 1 } else { 6 };
        for i in 0..n {
            trial_interleave(cx, mix(&[seed, i]));
        }
    }
}

pub fn replay(cx: &mut Ctx, desc: &str) {
    let d = Desc::parse(desc);
    if d.str("k") == "threads" {
        cx.log.announce(desc);
        trial_threads(cx, d.u64("threads") as usize, d.u64("mixed") as usize, d.u64("seed"));
    } else if d.str("k") == "ctor" {
        cx.log.announce(desc);
        trial_ctor_stress(cx, d.u64("threads") as usize, d.u64("iters") as usize, d.u64("seed"));
    } else if d.str("k") == "handoff" {
        cx.log.announce(desc);
        trial_handoff(cx, d.u64("threads") as usize, d.u64("seed"));
    } else {
        trial_interleave(cx, d.u64("seed"));
    }
}
