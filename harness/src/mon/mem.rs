//! C16 — byte-slice APIs are alignment-independent and stay inside their buffers.
//! Fault monitor: every byte-slice API is called on buffers that start at the first / end at the
//! last byte of mapped memory (guard pages), at every alignment, with inputs sealed read-only.
//! The oracle is the operating system (SIGSEGV kills the worker, the driver attributes it to the
//! announced case), ASan / Miri / memcheck in their builds, plus equality with the reference.

use super::{key_nonce, Ctx};
use crate::api::{self, HashId};
use crate::guard::{GuardBuf, Place};
use crate::lanes as L;
use crate::log::{guarded, Desc};
use crate::machines::{self, MachFn};
use crate::prng::{hex, Rng};
use crate::refmodel::chacha::RefStream;
use crate::refmodel::threefish as rtf;
use cipher::generic_array::GenericArray;
use cipher::{BlockDecrypt, BlockEncrypt};
use ppv_lite86::*;

fn place_name(p: Place) -> String {
    match p {
        Place::Tail => "tail".into(),
        Place::Head => "head".into(),
        Place::Interior(o) => format!("int{}", o),
    }
}
fn place_parse(s: &str) -> Place {
    match s {
        "tail" => Place::Tail,
        "head" => Place::Head,
        _ => Place::Interior(s[3..].parse().unwrap()),
    }
}
fn place_class(p: Place) -> &'static str {
    match p {
        Place::Tail => "tail",
        Place::Head => "head",
        Place::Interior(_) => "interior",
    }
}

pub struct Case {
    pub fam: String,
    pub what: String, // cipher / hash / machine+type name
    pub fb: u8,
    pub seed: u64,
    pub len: usize,
    pub place: Place,
}
impl Case {
    fn desc(&self) -> String {
        format!("fam={} what={} fb={} seed={} len={} place={}", self.fam, self.what, self.fb, self.seed, self.len, place_name(self.place))
    }
}

struct VecIo<'a> {
    ty: &'a str,
    data: &'a [u8],
    place: Place,
    err: Option<String>,
    wrong_len_calls: u64,
    wrong_len_returned: u64,
}
impl<'a> VecIo<'a> {
    fn one<V: StoreBytes + Copy, M: Machine>(&mut self, m: M, nb: usize, wbits: usize) {
        let a = &self.data[..nb];
        // loads from a sealed buffer that abuts unmapped memory
        let mut g = GuardBuf::new(a, self.place);
        g.seal();
        let v: V = m.read_le(g.slice());
        let w: V = m.read_be(g.slice());
        // stores into a guarded buffer
        let mut o = GuardBuf::new(&vec![0x11u8; nb], self.place);
        v.write_le(o.slice_mut());
        if o.slice() != a {
            self.err = Some(format!("write_le(read_le(x)) = {} for x = {}", hex(o.slice()), hex(a)));
        }
        w.write_le(o.slice_mut());
        if o.slice() != &L::bswap(a, wbits)[..] {
            self.err = Some(format!("write_le(read_be(x)) = {} for x = {}", hex(o.slice()), hex(a)));
        }
        v.write_be(o.slice_mut());
        if o.slice() != &L::bswap(a, wbits)[..] {
            self.err = Some(format!("write_be(read_le(x)) = {} for x = {}", hex(o.slice()), hex(a)));
        }
        if !o.canaries_ok() {
            self.err = Some("a vector store wrote outside the output slice".into());
        }
        // "every length": a slice of the wrong length may be refused (panic) but a call that
        // returns must have stayed inside it -- the short slice abuts unmapped memory / canaries
        let seed = self.data[0] as usize;
        crate::log::expect_panics(true);
        // three of six wrong lengths per case, by turns
        let all = [0usize, 1, nb / 2, nb - 1, nb - 4, (seed * 7) % nb];
        for bl in [all[seed % 6], all[(seed + 1) % 6], all[(seed + 3) % 6]] {
            let mut o = GuardBuf::new(&vec![0x11u8; bl], self.place);
            let stored = guarded(|| v.write_le(o.slice_mut())).is_ok();
            let stored_be = guarded(|| v.write_be(o.slice_mut())).is_ok();
            if !o.canaries_ok() {
                self.err = Some(format!("a {}-byte vector stored into a {}-byte slice wrote outside the slice", nb, bl));
            }
            let mut g = GuardBuf::new(&a[..bl], self.place);
            g.seal();
            let loaded = guarded(|| {
                let x: V = m.read_le(g.slice());
                let y: V = m.read_be(g.slice());
                std::hint::black_box((x, y));
            })
            .is_ok();
            self.wrong_len_calls += 3;
            self.wrong_len_returned += stored as u64 + stored_be as u64 + loaded as u64;
        }
        crate::log::expect_panics(false);
    }
}
impl<'a> MachFn for VecIo<'a> {
    #[inline(always)]
    fn call<M: Machine>(&mut self, _n: &'static str, m: M) {
        match self.ty {
            "u32x4" => self.one::<M::u32x4, M>(m, 16, 32),
            "u32x4x2" => self.one::<M::u32x4x2, M>(m, 32, 32),
            "u64x2x2" => self.one::<M::u64x2x2, M>(m, 32, 64),
            "u64x4" => self.one::<M::u64x4, M>(m, 32, 64),
            "u32x4x4" => self.one::<M::u32x4x4, M>(m, 64, 32),
            _ => panic!("bad vector type"),
        }
    }
}
const VEC_TYPES: [&str; 5] = ["u32x4", "u32x4x2", "u64x2x2", "u64x4", "u32x4x4"];

struct F8Ptr<'a> {
    st: [u8; 128],
    blk: &'a [u8],
    out: [u8; 128],
}
impl<'a> MachFn for F8Ptr<'a> {
    #[inline(always)]
    fn call<M: Machine>(&mut self, _n: &'static str, m: M) {
        let mut s: [vec128_storage; 8] = core::array::from_fn(|i| {
            let w: [u32; 4] = core::array::from_fn(|j| u32::from_le_bytes([self.st[16 * i + 4 * j], self.st[16 * i + 4 * j + 1], self.st[16 * i + 4 * j + 2], self.st[16 * i + 4 * j + 3]]));
            w.into()
        });
        jh_x86_64::compressor::f8_impl::<M>(m, &mut s, self.blk.as_ptr());
        for i in 0..8 {
            let w: [u32; 4] = s[i].into();
            for j in 0..4 {
                self.out[16 * i + 4 * j..16 * i + 4 * j + 4].copy_from_slice(&w[j].to_le_bytes());
            }
        }
    }
}

thread_local! {
    /// (vector load/store calls made with a slice of the wrong length, how many of them returned)
    static WRONG_LEN: std::cell::RefCell<(u64, u64)> = std::cell::RefCell::new((0, 0));
}

fn exec_inner(c: &Case) -> Result<u64, String> {
    let mut r = Rng::new(c.seed);
    match c.fam.as_str() {
        "cipher" => {
            let (layout, dr, nlen) = api::cipher_params(&c.what);
            let (key, nonce) = key_nonce(c.seed, nlen);
            let pos: u128 = [0u128, 1, 63, 64, 200, (1u128 << 38) - 700][(c.seed % 6) as usize] + (c.seed >> 8) as u128 % 64;
            let data = r.bytes(c.len);
            let mut g = GuardBuf::new(&data, c.place);
            let mut ci = api::new_cipher(&c.what, &key, &nonce);
            ci.try_seek(api::SeekTy::U64, pos, false).map_err(|_| "seek failed".to_string())?;
            ci.try_apply(g.slice_mut()).map_err(|_| "apply failed".to_string())?;
            let mut exp = data.clone();
            RefStream::new(layout, dr, &key, &nonce).xor(pos, &mut exp);
            if g.slice() != &exp[..] {
                return Err(format!("keystream applied at address {:#x} (len {}) differs from the reference", g.addr(), c.len));
            }
            if !g.canaries_ok() {
                return Err("apply_keystream wrote outside the slice".into());
            }
            Ok(c.len as u64)
        }
        "refill" => {
            let (key, nonce) = key_nonce(c.seed, 8);
            let ctr = r.edge64();
            let dr = r.below(11) as u32;
            let wide = c.what == "refill4";
            let n = if wide { 256 } else { 64 };
            let mut st = c2_chacha::guts::ChaCha::new(&key, &nonce);
            st.set_stream_param(0, ctr);
            let mut g = GuardBuf::new(&vec![0x6Du8; n], c.place); // a result buffer that held other data
            if wide {
                let a: &mut [u8; 256] = g.slice_mut().try_into().unwrap();
                st.refill4(dr, a);
            } else {
                let a: &mut [u8; 64] = g.slice_mut().try_into().unwrap();
                st.refill(dr, a);
            }
            let sid = st.get_stream_param(1);
            for i in 0..(n / 64) as u64 {
                let cc = ctr.wrapping_add(i);
                let e = crate::refmodel::chacha::block(&key, [cc as u32, (cc >> 32) as u32, sid as u32, (sid >> 32) as u32], dr);
                if g.slice()[64 * i as usize..64 * i as usize + 64] != e {
                    return Err(format!("{} into a buffer at {:#x}: block {} differs from the reference", c.what, g.addr(), i));
                }
            }
            if !g.canaries_ok() {
                return Err("refill wrote outside the output array".into());
            }
            Ok(n as u64)
        }
        "hash" => {
            let id = HashId::parse(&c.what);
            let msg = r.bytes(c.len);
            let mut g = GuardBuf::new(&msg, c.place);
            g.seal();
            let mut h = id.new();
            // either the whole slice at once or in two pieces of the same guarded slice
            let cut = if c.seed & 1 == 0 || c.len == 0 { c.len } else { (c.seed >> 4) as usize % c.len };
            h.update(&g.slice()[..cut]);
            if cut < c.len {
                h.update(&g.slice()[cut..]);
            }
            // the digest is written into caller-provided memory that abuts unmapped pages as well
            let mut og = GuardBuf::new(&vec![0x33u8; id.out], c.place);
            h.finalize_into_slice(og.slice_mut());
            let got = og.slice().to_vec();
            if !og.canaries_ok() {
                return Err("finalize_into wrote outside the output array".into());
            }
            // under Miri (where the point is UB detection) the slow models are replaced by the
            // implementation's own digest of an ordinary aligned copy of the message
            let exp = if cfg!(miri) && !matches!(id.fam, api::Fam::Blake) { id.oneshot(&msg) } else { id.reference(&msg) };
            if got != exp {
                return Err(format!("digest of a message at address {:#x} (len {}) is {} reference {}", g.addr(), c.len, hex(&got), hex(&exp)));
            }
            Ok(c.len as u64)
        }
        "tf" => {
            let nb: usize = c.what.parse().unwrap();
            let key = r.bytes(nb);
            let blk = r.bytes(nb);
            let (t0, t1) = (r.u64(), r.u64());
            let mut kg = GuardBuf::new(&key, c.place);
            kg.seal();
            let mut bg = GuardBuf::new(&blk, c.place);
            macro_rules! go {
                ($T:ty) => {{
                    let fish = <$T>::with_tweak(GenericArray::from_slice(kg.slice()), t0, t1);
                    fish.encrypt_block(GenericArray::from_mut_slice(bg.slice_mut()));
                    let e = bg.slice().to_vec();
                    fish.decrypt_block(GenericArray::from_mut_slice(bg.slice_mut()));
                    e
                }};
            }
            let e = match nb {
                32 => go!(threefish_cipher::Threefish256),
                64 => go!(threefish_cipher::Threefish512),
                _ => go!(threefish_cipher::Threefish1024),
            };
            if e != rtf::encrypt(&key, t0, t1, &blk) {
                return Err(format!("threefish-{} block at {:#x}: ciphertext differs from the reference", nb * 8, bg.addr()));
            }
            if bg.slice() != &blk[..] {
                return Err("decrypt(encrypt(block)) in a guarded buffer did not restore it".into());
            }
            if !bg.canaries_ok() {
                return Err("block cipher wrote outside the block".into());
            }
            Ok(nb as u64)
        }
        "vec" => {
            let (mname, ty) = c.what.split_once('/').unwrap();
            let data = r.bytes(64);
            let mut v = VecIo { ty, data: &data, place: c.place, err: None, wrong_len_calls: 0, wrong_len_returned: 0 };
            machines::run(mname, &mut v);
            WRONG_LEN.with(|w| {
                let mut w = w.borrow_mut();
                w.0 += v.wrong_len_calls;
                w.1 += v.wrong_len_returned;
            });
            match v.err {
                Some(e) => Err(format!("{} {}: {}", mname, ty, e)),
                None => Ok(64),
            }
        }
        "f8" => {
            let mut st = [0u8; 128];
            r.fill(&mut st);
            let blk = r.bytes(64);
            let mut g = GuardBuf::new(&blk, c.place);
            g.seal();
            let exp = if cfg!(miri) {
                let mut cp = jh_x86_64::compressor::Compressor::new(st);
                cp.input(GenericArray::from_slice(&blk));
                cp.finalize()
            } else {
                crate::refmodel::jh::f8(&st, &blk)
            };
            let got = if c.what == "compressor" {
                let mut cp = jh_x86_64::compressor::Compressor::new(st);
                cp.input(GenericArray::from_slice(g.slice()));
                cp.finalize()
            } else {
                let mut f = F8Ptr { st, blk: g.slice(), out: [0; 128] };
                machines::run(&c.what, &mut f);
                f.out
            };
            if got != exp {
                return Err(format!("F8 on a block at {:#x} via {} differs from the reference", g.addr(), c.what));
            }
            Ok(64)
        }
        f => panic!("unknown family {}", f),
    }
}

pub fn exec(cx: &mut Ctx, c: &Case) {
    api::force_backend(c.fb);
    let r = guarded(|| exec_inner(c));
    api::force_backend(0);
    cx.log.eval(1);
    let sigp = format!("C16|{}|{}", c.fam, api::profile());
    WRONG_LEN.with(|w| {
        let mut w = w.borrow_mut();
        if w.0 != 0 {
            cx.log.event("vector_io_calls_with_wrong_slice_length", w.0);
            cx.log.event("vector_io_calls_with_wrong_slice_length_that_returned", w.1);
            *w = (0, 0);
        }
    });
    match r {
        Ok(Ok(n)) => cx.log.event("bytes_touched", n),
        Ok(Err(d)) => cx.log.violation(&format!("{}|wrong-result|{}", sigp, place_class(c.place)), &d),
        Err(p) => cx.log.panic_violation(&sigp, &p),
    }
}

pub fn run(cx: &mut Ctx) {
    cx.selftest(crate::refmodel::T_ALL);
    let mut rng = cx.rng("C16");
    if cfg!(miri) {
        cx.log.note("miri", "expected values for Groestl/JH/Skein come from the implementation's digest of an aligned copy (alignment-independence), not from the reference models");
    }
    let levels = api::backend_levels();
    let mut hashes = api::hashes15(64);
    // Skein output sizes that are not a multiple of the word size (the output array ends inside a word)
    for bits in [256u32, 512, 1024] {
        for out in [7usize, 20, 28, 33, 100] {
            hashes.push(HashId { fam: api::Fam::Skein, bits, out });
        }
    }
    cx.log.note("placement", if crate::guard::use_mmap() { "mmap guard pages" } else { "exact-size heap allocations (tool red zones)" });
    for i in 0..cx.budget {
        let place = match rng.below(5) {
            0 | 1 => Place::Tail,
            2 => Place::Head,
            _ => Place::Interior(rng.below(64) as usize),
        };
        let fb = *rng.pick(levels);
        let seed = rng.u64();
        let (fam, what, len): (&str, String, usize) = match (i + cx.shard) % 12 {
            0..=2 => ("cipher", api::CIPHERS[rng.below(7) as usize].to_string(), rng.below(601) as usize),
            3 => ("refill", if rng.below(2) == 0 { "refill".into() } else { "refill4".into() }, 0),
            4..=7 => {
                let id = *rng.pick(&hashes);
                let bs = id.block_size() as u64;
                let len = if rng.below(4) == 0 { bs * rng.range(1, 5) + rng.below(bs) } else { rng.below(601) };
                ("hash", id.name(), len as usize)
            }
            8 => ("tf", ["32", "64", "128"][rng.below(3) as usize].to_string(), 0),
            9 | 10 => ("vec", format!("{}/{}", rng.pick(machines::NAMES), rng.pick(&VEC_TYPES)), 0),
            _ => ("f8", if rng.below(3) == 0 { "compressor".to_string() } else { rng.pick(machines::NAMES).to_string() }, 0),
        };
        let c = Case { fam: fam.into(), what, fb, seed, len, place };
        cx.log.announce(&c.desc());
        cx.log.nontrivial();
        let align = match place {
            Place::Tail => (64 - len % 64) % 64,
            Place::Head => 0,
            Place::Interior(o) => o,
        };
        cx.log.class(&format!("{}/{}/{}", fam, c.what, place_class(place)));
        cx.log.class(&format!("{}/align={}", fam, align));
        cx.log.class(&format!("config={}-{}/{}", api::build_kind(), api::profile(), api::BACKEND_NAMES[fb as usize]));
        exec(cx, &c);
    }
}

pub fn replay(cx: &mut Ctx, desc: &str) {
    let d = Desc::parse(desc);
    let c = Case { fam: d.str("fam").into(), what: d.str("what").into(), fb: d.u64("fb") as u8, seed: d.u64("seed"), len: d.u64("len") as usize, place: place_parse(d.str("place")) };
    cx.log.announce(&c.desc());
    exec(cx, &c);
}
