//! Monitors: one module per property (workload generator + shadow model + oracle).

use crate::log::Log;
use crate::prng::Rng;

pub mod blockapi;
pub mod c01;
pub mod counters;
pub mod hashdiff;
pub mod hashhist;
pub mod hist;
pub mod jhf8;
pub mod mem;
pub mod null;
pub mod ppv;
pub mod smoke;
pub mod tf;
pub mod xback;
pub mod threads;

pub struct Ctx {
    pub prop: String,
    pub shard: u64,
    pub nshards: u64,
    pub seed: u64,
    pub budget: u64,
    pub thorough: bool,
    pub log: Log,
    /// extra `k=v` arguments of the worker invocation
    pub args: Vec<(String, String)>,
}

impl Ctx {
    pub fn rng(&self, tag: &str) -> Rng {
        Rng::new(crate::prng::mix(&[self.seed, self.shard, crate::prng::fnv(tag.as_bytes())]))
    }
    pub fn arg(&self, k: &str) -> Option<&str> {
        self.args.iter().find(|(a, _)| a == k).map(|(_, v)| v.as_str())
    }
    pub fn arg_u64(&self, k: &str, d: u64) -> u64 {
        self.arg(k).map(|v| crate::log::parse_u128(v) as u64).unwrap_or(d)
    }
    /// Run the models' self-test; on failure report INCONCLUSIVE and exit(3).
    pub fn selftest(&mut self, which: u32) {
        let limit = if cfg!(miri) { 2 } else { 100000 };
        // under Miri only the cheap models are re-tested (the native workers of the same check
        // run self-test the very same model code in full)
        let which = if cfg!(miri) { which & (crate::refmodel::T_CHACHA | crate::refmodel::T_BLAKE) } else { which };
        match crate::refmodel::selftest(which, limit) {
            Ok(n) => self.log.event("refmodel_selftest_vectors", n),
            Err(e) => {
                self.log.note("inconclusive", &format!("reference-model self-test failed: {}", e));
                eprintln!("INCONCLUSIVE reference-model self-test failed: {}", e);
                std::process::exit(3);
            }
        }
    }
}

/// Key / nonce material of a case, derived from (kseed): structured patterns and random.
pub fn key_nonce(kseed: u64, nonce_len: usize) -> ([u8; 32], Vec<u8>) {
    let mut r = Rng::new(kseed);
    let (_, k) = r.pattern(32);
    let (_, n) = r.pattern(nonce_len);
    let mut key = [0u8; 32];
    key.copy_from_slice(&k);
    (key, n)
}

pub fn first_diff(a: &[u8], b: &[u8]) -> Option<usize> {
    if a.len() != b.len() {
        return Some(a.len().min(b.len()));
    }
    a.iter().zip(b.iter()).position(|(x, y)| x != y)
}

pub fn run(cx: &mut Ctx) {
    match cx.prop.as_str() {
        "C01" => c01::run(cx),
        "C02" | "C11" => hist::run(cx),
        "C03" => xback::run(cx),
        "C04" | "C05" | "C06" | "C07" => hashdiff::run(cx),
        "C08" => hashhist::run(cx),
        "C09" | "C10" => tf::run(cx),
        "C12" | "C13" => ppv::run(cx),
        "C14" | "C15" => blockapi::run(cx),
        "C16" => mem::run(cx),
        "C17" => counters::run(cx),
        "C18" => threads::run(cx),
        "C19" => null::run(cx),
        "C20" => smoke::run(cx),
        p => {
            eprintln!("unknown property {}", p);
            std::process::exit(2);
        }
    }
}

pub fn replay(cx: &mut Ctx, desc: &str) {
    match cx.prop.as_str() {
        "C01" => c01::replay(cx, desc),
        "C02" | "C11" => hist::replay(cx, desc),
        "C03" => xback::replay(cx, desc),
        "C04" | "C05" | "C06" | "C07" => hashdiff::replay(cx, desc),
        "C08" => hashhist::replay(cx, desc),
        "C09" | "C10" => tf::replay(cx, desc),
        "C12" | "C13" => ppv::replay(cx, desc),
        "C14" | "C15" => blockapi::replay(cx, desc),
        "C16" => mem::replay(cx, desc),
        "C17" => counters::replay(cx, desc),
        "C18" => threads::replay(cx, desc),
        "C19" => null::replay(cx, desc),
        "C20" => smoke::replay(cx, desc),
        p => {
            eprintln!("unknown property {}", p);
            std::process::exit(2);
        }
    }
}
