//! C01 — ChaCha keystream equals the specified function at every position.
//! Differential per call: real `seek` + `apply_keystream` vs. the reference keystream, with
//! canaries around the slice.

use super::{first_diff, key_nonce, Ctx};
use crate::api::{self, SeekTy};
use crate::log::{guarded, Desc};
use crate::refmodel::chacha::{Layout, RefStream};

const PRE: usize = 24;
const POST: usize = 40;

pub struct Case {
    pub ty: &'static str,
    pub fb: u8,
    pub kseed: u64,
    pub pos: u128,
    pub len: usize,
    /// what happens on the instance *before* the measured seek+apply:
    /// 0 nothing, 1 some bytes are applied at position 0, 2 a request at the very end of the
    /// stream (refused for the 32-bit counter, wrapping-free for the 64-bit one)
    pub pre: u8,
}

impl Case {
    pub fn desc(&self) -> String {
        format!("ty={} fb={} kseed={} pos={} len={} pre={}", self.ty, self.fb, self.kseed, self.pos, self.len, self.pre)
    }
}

fn blk_class(layout: Layout, blk: u128) -> &'static str {
    if blk < 8 {
        "blk0-7"
    } else if layout == Layout::Ietf {
        if blk + 8 >= (1 << 32) {
            "near-2^32-end"
        } else {
            "mid"
        }
    } else if blk + 8 >= (1 << 32) && blk < (1 << 32) + 8 {
        "near-2^32"
    } else if blk + 8 >= (1 << 58) {
        "near-2^58"
    } else {
        "mid"
    }
}

pub fn exec(cx: &mut Ctx, c: &Case) {
    let (layout, drounds, nlen) = api::cipher_params(c.ty);
    let (key, nonce) = key_nonce(c.kseed, nlen);
    let mut r = crate::prng::Rng::new(c.kseed ^ 0x5eed);
    let data = r.bytes(c.len);
    // the slice starts at a case-dependent offset, so every 16-byte alignment class is met
    let pre = PRE + (c.kseed >> 20) as usize % 33;
    let mut buf = vec![0xA5u8; pre];
    buf.extend_from_slice(&data);
    buf.extend(std::iter::repeat(0x5A).take(POST));
    let sigp = format!("{}|{}|{}", cx.prop, match layout { Layout::Ietf => "ctr32", Layout::Djb => "ctr64", Layout::X => "xchacha" }, api::profile());
    api::force_backend(c.fb);
    let res = guarded(|| {
        let mut ci = api::new_cipher(c.ty, &key, &nonce);
        match c.pre {
            1 => {
                let mut junk = vec![0u8; 1 + (c.kseed % 300) as usize];
                ci.try_apply(&mut junk).map_err(|_| "apply")?;
            }
            2 => {
                // the outcome of this request is C11's business; here only what follows matters
                let mut junk = [0u8; 200];
                if layout == Layout::Ietf {
                    ci.try_seek(SeekTy::U64, (1u128 << 38) - 1 - (c.kseed % 63) as u128, false).map_err(|_| "seek")?;
                } else {
                    ci.try_seek(SeekTy::U64, u64::MAX as u128 - (c.kseed % 63) as u128, false).map_err(|_| "seek")?;
                }
                // ... except that a refused request must not have touched the data ("changes nothing else")
                if ci.try_apply(&mut junk).is_err() && junk.iter().any(|&b| b != 0) {
                    return Err("refused-apply-changed-the-data");
                }
            }
            _ => {}
        }
        if c.pos != 0 || c.pre != 0 {
            let ty = if c.pos > u32::MAX as u128 { SeekTy::U64 } else { SeekTy::U32 };
            ci.try_seek(ty, c.pos, false).map_err(|_| "seek")?;
        }
        // one case in eight continues on a copy of the public `state` taken right after the seek
        // (the only way to duplicate a cipher): the copy must carry the position, mid-block included
        if (c.kseed >> 40) & 7 == 0 {
            let snap = ci.snapshot();
            ci.restore(&*snap, (c.kseed >> 43) & 1 == 1);
        }
        // half of the cases deliver the slice in two or three consecutive calls (no seek in
        // between), cut at seeded places: the keystream must not depend on the chunking
        let mut cuts: Vec<usize> = Vec::new();
        if c.kseed & 2 != 0 && c.len >= 2 {
            let k1 = match (c.kseed >> 3) % 4 {
                0 => 129 + (c.kseed >> 9) as usize % 64,
                1 => 64 * (1 + (c.kseed >> 9) as usize % 4),
                _ => 1 + (c.kseed >> 9) as usize % (c.len - 1),
            }
            .min(c.len - 1);
            cuts.push(k1);
            if (c.kseed >> 5) & 1 == 1 && c.len - k1 >= 2 {
                cuts.push(k1 + 1 + (c.kseed >> 13) as usize % (c.len - k1 - 1));
            }
        }
        let mut at = 0;
        for &k in cuts.iter().chain(std::iter::once(&c.len)) {
            ci.try_apply(&mut buf[pre + at..pre + k]).map_err(|_| "apply")?;
            at = k;
        }
        Ok::<(), &'static str>(())
    });
    api::force_backend(0);
    cx.log.eval(1);
    match res {
        Err(p) => {
            cx.log.panic_violation(&sigp, &p);
            return;
        }
        Ok(Err(what)) if what.starts_with("refused") => {
            cx.log.violation(&format!("{}|{}", sigp, what), "a request past the end of the keystream returned Err but bytes of the buffer were changed");
            return;
        }
        Ok(Err(what)) => {
            cx.log.violation(&format!("{}|{}-rejected-in-range", sigp, what), "Err for an in-range position");
            return;
        }
        Ok(Ok(())) => {}
    }
    let mut exp = data.clone();
    RefStream::new(layout, drounds, &key, &nonce).xor(c.pos, &mut exp);
    if let Some(i) = first_diff(&buf[pre..pre + c.len], &exp) {
        cx.log.violation(
            &format!("{}|wrong-bytes", sigp),
            &format!("first differing byte {} (absolute position {}): got {:02x} want {:02x}", i, c.pos + i as u128, buf[pre + i], exp[i]),
        );
    }
    if buf[..pre].iter().any(|&b| b != 0xA5) || buf[pre + c.len..].iter().any(|&b| b != 0x5A) {
        cx.log.violation(&format!("{}|outside-write", sigp), "canary bytes around the slice changed");
    }
    cx.log.event("bytes_compared", c.len as u64);
}

pub fn run(cx: &mut Ctx) {
    cx.selftest(crate::refmodel::T_CHACHA);
    let mut rng = cx.rng("C01");
    let levels = api::backend_levels();
    let kind = api::build_kind();
    let lens_special: [usize; 22] = [0, 1, 2, 15, 16, 17, 63, 64, 65, 127, 128, 129, 191, 192, 255, 256, 257, 319, 320, 511, 512, 513];
    for i in 0..cx.budget {
        let ty = api::CIPHERS[((i + cx.shard) % 7) as usize];
        let (layout, _, _) = api::cipher_params(ty);
        let fb = levels[((i / 7 + cx.shard) % levels.len() as u64) as usize];
        let len = match rng.below(40) {
            0..=15 => *rng.pick(&lens_special),
            16..=31 => rng.below(601) as usize,
            // now and then a request of many KiB in one call (whole pages, odd sizes)
            32 if !cfg!(miri) => 4096 * rng.range(1, 17) as usize + [0usize, 0, 1, 63, 255][rng.below(5) as usize],
            33 if !cfg!(miri) => rng.below(300_000) as usize,
            _ => rng.below(5001) as usize,
        };
        let off = if rng.below(4) == 0 { 0 } else { rng.below(64) as u128 };
        let limit_blocks: u128 = if layout == Layout::Ietf { 1 << 32 } else { 1 << 58 };
        let blk: u128 = match rng.below(12) {
            0 => 0,
            1 => 1,
            2 => 3,
            3 => 4,
            4 => ((1u128 << 32) - 5 + rng.below(10) as u128).min(limit_blocks - 1),
            // around a later multiple of 2^32 blocks (the high counter word is already non-zero)
            5 => (((1u128 << 32) * rng.range(1, 1 << 20) as u128) - 5 + rng.below(10) as u128).min(limit_blocks - 1),
            6 | 7 => limit_blocks - 1 - rng.below(6) as u128,
            8 => rng.below(64) as u128,
            _ => (rng.u64() as u128) % limit_blocks,
        };
        let mut pos = blk * 64 + off;
        let limit_bytes = limit_blocks * 64;
        // positions must be seekable (< 2^64 for the 64-bit counter) and, for IETF, pos+len <= 2^38
        if layout == Layout::Ietf {
            if pos + len as u128 > limit_bytes {
                pos = limit_bytes - len as u128;
            }
        } else if pos > u64::MAX as u128 {
            pos = u64::MAX as u128;
        }
        let pre = match rng.below(8) {
            0 => 1,
            1 => 2,
            _ => 0,
        };
        let c = Case { ty, fb, kseed: rng.u64(), pos, len, pre };
        cx.log.announce(&c.desc());
        if len >= 1 {
            cx.log.nontrivial();
        }
        let lc = if len < 64 {
            "len<64"
        } else if len < 256 {
            "len64-255"
        } else {
            "len>=256"
        };
        cx.log.class(&format!("{}/{}/{}/{}", ty, api::BACKEND_NAMES[fb as usize], lc, blk_class(layout, pos / 64)));
        cx.log.class(&format!("posmod64={}", pos % 64));
        cx.log.class(&format!("pre-history={}", ["none", "applied-elsewhere", "request-at-end-of-stream"][pre as usize]));
        cx.log.class(&format!("config={}-{}/{}", kind, api::profile(), api::BACKEND_NAMES[fb as usize]));
        exec(cx, &c);
    }
}

pub fn replay(cx: &mut Ctx, desc: &str) {
    let d = Desc::parse(desc);
    let ty = api::CIPHERS.iter().find(|t| **t == d.str("ty")).expect("cipher type");
    let c = Case { ty, fb: d.u64("fb") as u8, kseed: d.u64("kseed"), pos: d.u128("pos"), len: d.u64("len") as usize, pre: d.u64_or("pre", 0) as u8 };
    cx.log.announce(&c.desc());
    exec(cx, &c);
}
