//! C09 / C10 — Threefish: encryption vs. the reference (C09); decryption is the exact inverse in
//! both composition orders and equals the reference inverse (C10).

use super::Ctx;
use crate::api;
use crate::log::{guarded, Desc};
use crate::prng::{hex, Rng};
use crate::refmodel::threefish as rtf;
use cipher::generic_array::GenericArray;
use cipher::{BlockDecrypt, BlockEncrypt, NewBlockCipher};
use threefish_cipher::{Threefish1024, Threefish256, Threefish512};

pub struct Case {
    pub nb: usize,
    pub seed: u64,
    pub kind: u8,
    pub use_new: bool,
}
impl Case {
    pub fn desc(&self) -> String {
        format!("nb={} seed={} kind={} new={}", self.nb, self.seed, self.kind, self.use_new as u8)
    }
}

/// (key, t0, t1, block) for a case; `kind` selects structured operands.
pub fn operands(c: &Case) -> (Vec<u8>, u64, u64, Vec<u8>) {
    let mut r = Rng::new(c.seed);
    let nb = c.nb;
    let words = |r: &mut Rng, kind: u8| -> Vec<u8> {
        let mut v = vec![0u8; nb];
        match kind {
            0 => {}
            1 => v.iter_mut().for_each(|b| *b = 0xff),
            2 => {
                let bit = r.below(8 * nb as u64) as usize;
                v[bit / 8] = 1 << (bit % 8);
            }
            3 => {
                // carry-provoking words: 2^63, 2^64-1, 1, 0 in random order
                for w in v.chunks_mut(8) {
                    let x: u64 = *r.pick(&[1u64 << 63, u64::MAX, 1, 0, u64::MAX - 1, 1u64 << 32]);
                    w.copy_from_slice(&x.to_le_bytes());
                }
            }
            _ => r.fill(&mut v),
        }
        v
    };
    let kk = if c.kind < 4 { c.kind } else { (r.below(5)) as u8 };
    let mut key = words(&mut r, kk);
    if c.kind == 8 {
        // degenerate key schedules: all key words equal (so is the parity word when the constant
        // is used), or a key whose parity word k[nw] is zero
        let rw = r.u64();
        let w: u64 = *r.pick(&[C240, 0x0101010101010101, rw]);
        for ch in key.chunks_mut(8) {
            ch.copy_from_slice(&w.to_le_bytes());
        }
        if r.below(2) == 0 {
            let mut x = C240;
            for ch in key.chunks(8).skip(1) {
                x ^= u64::from_le_bytes(ch.try_into().unwrap());
            }
            key[..8].copy_from_slice(&x.to_le_bytes()); // xor of all words == C240  =>  k[nw] == 0
        }
    }
    let kb = if c.kind < 4 { c.kind } else { (r.below(5)) as u8 };
    let mut blk = words(&mut r, kb);
    let (t0, t1) = if c.use_new {
        (0, 0)
    } else {
        match r.below(5) {
            0 => (0, 0),
            1 => (u64::MAX, u64::MAX),
            2 => (1u64 << 63, 1),
            _ => (r.u64(), r.u64()),
        }
    };
    // relational operands (only the *choice* of operands uses the key schedule; the oracle is
    // still the reference model): blocks that cancel a subkey, so that the state right after the
    // first key injection (encrypt) or right after the whitening is removed (decrypt) is zero in
    // all or in single words -- the value-dependent corner a borrow/carry slip lives in
    if (5..=7).contains(&c.kind) {
        let nw = nb / 8;
        let last = if nb == 128 { 20 } else { 18 };
        let sub = |s: usize| -> Vec<u64> { subkey(&key, t0, t1, s) };
        let (sk, neg) = match c.kind {
            5 => (sub(0), true),     // plaintext = -subkey_0
            6 => (sub(last), false), // ciphertext = final subkey
            _ => (sub(if r.below(2) == 0 { 0 } else { last }), r.below(2) == 0),
        };
        let only: Option<usize> = if c.kind == 7 { Some(r.below(nw as u64) as usize) } else { None };
        for j in 0..nw {
            if only.map_or(true, |o| o == j || (r.below(4) == 0)) {
                let w = if neg { sk[j].wrapping_neg() } else { sk[j] };
                blk[8 * j..8 * j + 8].copy_from_slice(&w.to_le_bytes());
            }
        }
    }
    (key, t0, t1, blk)
}

const C240: u64 = 0x1BD1_1BDA_A9FC_1A22;

/// Subkey `s` of the Threefish key schedule (operand selection only).
fn subkey(key: &[u8], t0: u64, t1: u64, s: usize) -> Vec<u64> {
    let nw = key.len() / 8;
    let mut k: Vec<u64> = key.chunks(8).map(|c| u64::from_le_bytes(c.try_into().unwrap())).collect();
    let par = k.iter().fold(C240, |a, b| a ^ b);
    k.push(par);
    let t = [t0, t1, t0 ^ t1];
    (0..nw)
        .map(|i| {
            let mut w = k[(s + i) % (nw + 1)];
            if i == nw - 3 {
                w = w.wrapping_add(t[s % 3]);
            } else if i == nw - 2 {
                w = w.wrapping_add(t[(s + 1) % 3]);
            } else if i == nw - 1 {
                w = w.wrapping_add(s as u64);
            }
            w
        })
        .collect()
}

/// The slice / parallel-block entry points of the block-cipher traits: n distinct blocks
/// derived from `blk`; returns (encrypt_blocks output, decrypt_blocks(encrypt_blocks) output,
/// decrypt_blocks output, par-blocks encrypt output, decrypt_par(encrypt_par) output, inputs).
macro_rules! run_multi {
    ($T:ty, $key:expr, $t0:expr, $t1:expr, $use_new:expr, $blk:expr, $n:expr) => {{
        use cipher::generic_array::typenum::Unsigned;
        let k = GenericArray::from_slice($key);
        let fish = if $use_new { <$T>::new(k) } else { <$T>::with_tweak(k, $t0, $t1) };
        let mk = |i: usize| -> cipher::Block<$T> {
            let mut b = GenericArray::clone_from_slice($blk);
            for (j, x) in b.iter_mut().enumerate() {
                *x = x.wrapping_add((i * 37 + j * i) as u8).rotate_left(i as u32 % 8);
            }
            b
        };
        let inputs: Vec<cipher::Block<$T>> = (0..$n).map(mk).collect();
        let mut e = inputs.clone();
        fish.encrypt_blocks(&mut e);
        let mut de = e.clone();
        fish.decrypt_blocks(&mut de);
        let mut d = inputs.clone();
        fish.decrypt_blocks(&mut d);
        let np = <<$T as cipher::BlockCipher>::ParBlocks as Unsigned>::USIZE;
        let mut par: cipher::ParBlocks<$T> = Default::default();
        for i in 0..np {
            par[i] = mk(i + 1);
        }
        let par_in: Vec<Vec<u8>> = par.iter().map(|b| b.to_vec()).collect();
        fish.encrypt_par_blocks(&mut par);
        let par_e: Vec<Vec<u8>> = par.iter().map(|b| b.to_vec()).collect();
        fish.decrypt_par_blocks(&mut par);
        let par_de: Vec<Vec<u8>> = par.iter().map(|b| b.to_vec()).collect();
        let v = |x: &Vec<cipher::Block<$T>>| -> Vec<Vec<u8>> { x.iter().map(|b| b.to_vec()).collect() };
        (v(&inputs), v(&e), v(&de), v(&d), par_in, par_e, par_de)
    }};
}

macro_rules! run_size {
    ($T:ty, $key:expr, $t0:expr, $t1:expr, $use_new:expr, $blk:expr, $off:expr) => {{
        // key and blocks live at a seeded byte offset inside larger buffers (a block behind a
        // 4- or 12-byte header is a real layout), and are processed in place
        let nb = $blk.len();
        let off: usize = $off;
        let mut kb = vec![0u8; nb + 16];
        let ko = (off * 5 + 3) % 16;
        kb[ko..ko + nb].copy_from_slice($key);
        let k = GenericArray::from_slice(&kb[ko..ko + nb]);
        let fish = if $use_new {
            // the zero-tweak constructors: `new` and the provided `new_from_slice`
            if $key[0] & 1 == 0 {
                <$T>::new(k)
            } else {
                <$T>::new_from_slice(&kb[ko..ko + nb]).expect("key of the exact size")
            }
        } else {
            <$T>::with_tweak(k, $t0, $t1)
        };
        let mut buf = vec![0xEEu8; nb + 32];
        let at = 8 + off;
        buf[at..at + nb].copy_from_slice($blk);
        fish.encrypt_block(GenericArray::from_mut_slice(&mut buf[at..at + nb]));
        let e = buf[at..at + nb].to_vec();
        fish.decrypt_block(GenericArray::from_mut_slice(&mut buf[at..at + nb]));
        let de = buf[at..at + nb].to_vec();
        buf[at..at + nb].copy_from_slice($blk);
        fish.decrypt_block(GenericArray::from_mut_slice(&mut buf[at..at + nb]));
        let d = buf[at..at + nb].to_vec();
        fish.encrypt_block(GenericArray::from_mut_slice(&mut buf[at..at + nb]));
        let ed = buf[at..at + nb].to_vec();
        let clean = buf[..at].iter().chain(buf[at + nb..].iter()).all(|&b| b == 0xEE);
        (e, de, d, ed, clean)
    }};
}

pub fn exec(cx: &mut Ctx, c: &Case) {
    let enc = cx.prop != "C10";
    let dec = cx.prop != "C09";
    exec_mode(cx, c, enc, dec)
}

pub fn exec_mode(cx: &mut Ctx, c: &Case, do_enc: bool, do_dec: bool) {
    let (key, t0, t1, blk) = operands(c);
    let unroll = if cfg!(feature = "nounroll") { "no_unroll" } else { "unrolled" };
    let sigp = format!("{}|threefish{}|{}|{}", cx.prop, c.nb * 8, unroll, api::profile());
    let off = (c.seed >> 20) as usize % 16;
    let r = guarded(|| match c.nb {
        32 => run_size!(Threefish256, &key, t0, t1, c.use_new, &blk, off),
        64 => run_size!(Threefish512, &key, t0, t1, c.use_new, &blk, off),
        128 => run_size!(Threefish1024, &key, t0, t1, c.use_new, &blk, off),
        _ => panic!("bad size"),
    });
    let (e, de, d, ed, clean) = match r {
        Ok(x) => x,
        Err(p) => {
            cx.log.panic_violation(&sigp, &p);
            return;
        }
    };
    cx.log.class(&format!("block-address-mod-8={}", off % 8));
    if !clean {
        cx.log.violation(&format!("{}|wrote-outside-the-block", sigp), "bytes around the block changed");
    }
    if do_enc {
        cx.log.eval(1);
        let exp = rtf::encrypt(&key, t0, t1, &blk);
        if e != exp {
            cx.log.violation(&format!("{}|wrong-ciphertext", sigp), &format!("encrypt gives {} reference {}", hex(&e[..16]), hex(&exp[..16])));
        }
    }
    if do_dec {
        cx.log.eval(3);
        if de != blk {
            cx.log.violation(&format!("{}|decrypt-of-encrypt-not-identity", sigp), "decrypt(encrypt(x)) != x");
        }
        if ed != blk {
            cx.log.violation(&format!("{}|encrypt-of-decrypt-not-identity", sigp), "encrypt(decrypt(x)) != x");
        }
        let exp = rtf::decrypt(&key, t0, t1, &blk);
        if d != exp {
            cx.log.violation(&format!("{}|wrong-plaintext", sigp), &format!("decrypt gives {} reference inverse {}", hex(&d[..16]), hex(&exp[..16])));
        }
    }
    // one case in four also drives the slice and parallel-block entry points with distinct blocks
    if c.seed % 4 == 0 {
        let n = 1 + (c.seed >> 8) as usize % 13;
        let r = guarded(|| match c.nb {
            32 => run_multi!(Threefish256, &key, t0, t1, c.use_new, &blk, n),
            64 => run_multi!(Threefish512, &key, t0, t1, c.use_new, &blk, n),
            _ => run_multi!(Threefish1024, &key, t0, t1, c.use_new, &blk, n),
        });
        let (inp, e, de, d, par_in, par_e, par_de) = match r {
            Ok(x) => x,
            Err(p) => {
                cx.log.panic_violation(&format!("{}|multi-block", sigp), &p);
                return;
            }
        };
        cx.log.eval(1);
        cx.log.event("multi_block_calls", 1);
        for i in 0..inp.len() {
            if do_enc && e[i] != rtf::encrypt(&key, t0, t1, &inp[i]) {
                cx.log.violation(&format!("{}|encrypt_blocks-wrong-ciphertext", sigp), &format!("encrypt_blocks over {} blocks: block {} differs from the reference", inp.len(), i));
                break;
            }
            if do_dec && de[i] != inp[i] {
                cx.log.violation(&format!("{}|decrypt_blocks-of-encrypt_blocks-not-identity", sigp), &format!("{} blocks: block {} is not restored", inp.len(), i));
                break;
            }
            if do_dec && d[i] != rtf::decrypt(&key, t0, t1, &inp[i]) {
                cx.log.violation(&format!("{}|decrypt_blocks-wrong-plaintext", sigp), &format!("decrypt_blocks over {} blocks: block {} differs from the reference inverse", inp.len(), i));
                break;
            }
        }
        for i in 0..par_in.len() {
            if do_enc && par_e[i] != rtf::encrypt(&key, t0, t1, &par_in[i]) {
                cx.log.violation(&format!("{}|encrypt_par_blocks-wrong-ciphertext", sigp), &format!("encrypt_par_blocks: block {} of {} differs from the reference", i, par_in.len()));
                break;
            }
            if do_dec && par_de[i] != par_in[i] {
                cx.log.violation(&format!("{}|decrypt_par_blocks-not-inverse", sigp), &format!("decrypt_par_blocks(encrypt_par_blocks(x)): block {} of {} is not restored", i, par_in.len()));
                break;
            }
        }
    }
}

pub fn run(cx: &mut Ctx) {
    cx.selftest(crate::refmodel::T_SKEIN);
    let mut rng = cx.rng(&cx.prop.clone());
    let unroll = if cfg!(feature = "nounroll") { "no_unroll" } else { "unrolled" };
    for i in 0..cx.budget {
        let nb = [32usize, 64, 128][(i % 3) as usize];
        let kind = match rng.below(16) {
            0 => 0,
            1 => 1,
            2 => 2,
            3 => 3,
            4 => 5,
            5 => 6,
            6 | 7 => 7,
            8 => 8,
            _ => 4,
        };
        let c = Case { nb, seed: rng.u64(), kind, use_new: rng.below(6) == 0 };
        cx.log.announce(&c.desc());
        cx.log.nontrivial();
        cx.log.class(&format!("threefish{}/{}/{}/{}", nb * 8, unroll, ["zero", "ones", "one-hot", "carry-words", "random", "cancels-first-subkey", "equals-final-subkey", "word-equals-subkey-word", "degenerate-key"][kind as usize], if c.use_new { "new" } else { "with_tweak" }));
        cx.log.class(&format!("config={}-{}", unroll, api::profile()));
        exec(cx, &c);
    }
}

pub fn replay(cx: &mut Ctx, desc: &str) {
    let d = Desc::parse(desc);
    let c = Case { nb: d.u64("nb") as usize, seed: d.u64("seed"), kind: d.u64("kind") as u8, use_new: d.u64("new") == 1 };
    cx.log.announce(&c.desc());
    exec(cx, &c);
}
