//! C14 / C15 — the public block-level API of c2_chacha::guts::ChaCha.
//! C14: refill4 == four refills (bytes and resulting state), each block is the reference block
//!      for the current 64-bit counter, the counter advances by 1 / 4 with carry from the low
//!      into the high word and never into the stream id, for 0..=10 double rounds.
//! C15: stream parameters round-trip and are isolated; output after `set` equals that of a state
//!      built directly; stream32_eq / stream64_eq equal the model predicates.

use super::Ctx;
use crate::api;
use crate::log::{guarded, Desc};
use crate::prng::{hex, Rng};
use crate::refmodel::chacha as rc;
use c2_chacha::guts::ChaCha;

#[derive(Clone, PartialEq, Debug)]
struct Model {
    key: [u8; 32],
    d: [u32; 4],
}
impl Model {
    fn ctr(&self) -> u64 {
        ((self.d[1] as u64) << 32) | self.d[0] as u64
    }
    fn sid(&self) -> u64 {
        ((self.d[3] as u64) << 32) | self.d[2] as u64
    }
    fn set_ctr(&mut self, c: u64) {
        self.d[0] = c as u32;
        self.d[1] = (c >> 32) as u32;
    }
    fn block(&self, drounds: u32, i: u64) -> [u8; 64] {
        let c = self.ctr().wrapping_add(i);
        rc::block(&self.key, [c as u32, (c >> 32) as u32, self.d[2], self.d[3]], drounds)
    }
}

/// Build a real state with the given words through the public API only.
fn make(key: &[u8; 32], d: [u32; 4]) -> ChaCha {
    let mut nonce = [0u8; 12];
    nonce[0..4].copy_from_slice(&d[1].to_le_bytes());
    nonce[4..8].copy_from_slice(&d[2].to_le_bytes());
    nonce[8..12].copy_from_slice(&d[3].to_le_bytes());
    let mut s = ChaCha::new(key, &nonce);
    s.set_stream_param(0, ((d[1] as u64) << 32) | d[0] as u64);
    s
}

fn ctr_class(c: u64) -> &'static str {
    let lo = c as u32;
    if c >= u64::MAX - 8 {
        "ctr-near-2^64"
    } else if lo >= u32::MAX - 8 {
        "lowword-near-2^32"
    } else if c < 8 {
        "ctr-small"
    } else if lo < 8 {
        "lowword-just-wrapped"
    } else {
        "ctr-mid"
    }
}

// ---------------------------------------------------------------- C14

pub struct C14Case {
    pub fb: u8,
    pub kseed: u64,
    pub nonce12: bool,
    pub ctr: u64,
    pub sid: u64,
    pub drounds: u32,
}
impl C14Case {
    fn desc(&self) -> String {
        format!("k=c14 fb={} kseed={} n12={} ctr={} sid={} dr={}", self.fb, self.kseed, self.nonce12 as u8, self.ctr, self.sid, self.drounds)
    }
}

fn exec14(cx: &mut Ctx, c: &C14Case) {
    let (key, nonce) = super::key_nonce(c.kseed, if c.nonce12 { 12 } else { 8 });
    let sigp = format!("C14|{}|fb={}", api::profile(), api::BACKEND_NAMES[c.fb as usize]);
    api::force_backend(c.fb);
    let r = guarded(|| {
        let mut a = ChaCha::new(&key, &nonce);
        a.set_stream_param(0, c.ctr);
        a.set_stream_param(1, c.sid);
        let mut b = a.clone();
        // output buffers hold other data before the call (a result buffer that is refilled)
        let mut wide = [0xC3u8; 256];
        a.refill4(c.drounds, &mut wide);
        let mut narrow = [0u8; 256];
        let mut after1 = 0u64;
        for i in 0..4 {
            let mut o = [0x3Cu8; 64];
            b.refill(c.drounds, &mut o);
            narrow[64 * i..64 * i + 64].copy_from_slice(&o);
            if i == 0 {
                after1 = b.get_stream_param(0);
            }
        }
        (wide, narrow, a == b, a.get_stream_param(0), a.get_stream_param(1), b.get_stream_param(0), b.get_stream_param(1), after1)
    });
    api::force_backend(0);
    cx.log.eval(1);
    let (wide, narrow, same, a0, a1, b0, b1, after1) = match r {
        Ok(x) => x,
        Err(p) => {
            cx.log.panic_violation(&sigp, &p);
            return;
        }
    };
    let m = Model { key, d: [c.ctr as u32, (c.ctr >> 32) as u32, c.sid as u32, (c.sid >> 32) as u32] };
    if wide != narrow {
        let i = wide.iter().zip(narrow.iter()).position(|(x, y)| x != y).unwrap();
        cx.log.violation(&format!("{}|wide-differs-from-4-narrow", sigp), &format!("first difference at byte {} (block {})", i, i / 64));
    }
    for i in 0..4u64 {
        let e = m.block(c.drounds, i);
        if narrow[64 * i as usize..64 * i as usize + 64] != e {
            cx.log.violation(&format!("{}|narrow-block-differs-from-reference", sigp), &format!("block {}: {} reference {}", i, hex(&narrow[64 * i as usize..64 * i as usize + 16]), hex(&e[..16])));
            break;
        }
        if wide[64 * i as usize..64 * i as usize + 64] != e {
            cx.log.violation(&format!("{}|wide-block-differs-from-reference", sigp), &format!("block {}: {} reference {}", i, hex(&wide[64 * i as usize..64 * i as usize + 16]), hex(&e[..16])));
            break;
        }
    }
    if !same {
        cx.log.violation(&format!("{}|states-differ-after", sigp), "state after refill4 != state after four refills");
    }
    if after1 != c.ctr.wrapping_add(1) {
        cx.log.violation(&format!("{}|counter-after-refill", sigp), &format!("counter after one refill is {} expected {}", after1, c.ctr.wrapping_add(1)));
    }
    if a0 != c.ctr.wrapping_add(4) || b0 != c.ctr.wrapping_add(4) {
        cx.log.violation(&format!("{}|counter-after-4", sigp), &format!("counter after 4 blocks: wide {} narrow {} expected {}", a0, b0, c.ctr.wrapping_add(4)));
    }
    if a1 != c.sid || b1 != c.sid {
        cx.log.violation(&format!("{}|stream-id-changed", sigp), &format!("stream id after 4 blocks: wide {:#x} narrow {:#x} expected {:#x}", a1, b1, c.sid));
    }
    cx.log.event("blocks_compared", 8);
}

fn run14(cx: &mut Ctx) {
    let mut rng = cx.rng("C14");
    let levels = api::backend_levels();
    for i in 0..cx.budget {
        let ctr = match rng.below(10) {
            0 => rng.below(6),
            1..=3 => ((rng.u32() as u64) << 32) | (u32::MAX as u64 - 5 + rng.below(9)) % (1 << 32),
            4 => (1u64 << 32) - 5 + rng.below(9),
            5 | 6 => u64::MAX - rng.below(7),
            _ => rng.u64(),
        };
        let sid = match rng.below(4) {
            0 => 0,
            1 => u64::MAX,
            _ => rng.u64(),
        };
        let c = C14Case { fb: levels[(i % levels.len() as u64) as usize], kseed: rng.u64(), nonce12: rng.below(2) == 0, ctr, sid, drounds: (i / levels.len() as u64 % 11) as u32 };
        cx.log.announce(&c.desc());
        cx.log.nontrivial();
        cx.log.class(&format!("c14/{}/{}/dr={}", api::BACKEND_NAMES[c.fb as usize], ctr_class(ctr), c.drounds));
        cx.log.class(&format!("config={}-{}/{}", api::build_kind(), api::profile(), api::BACKEND_NAMES[c.fb as usize]));
        exec14(cx, &c);
    }
}

// ---------------------------------------------------------------- C15

#[derive(Clone, Debug)]
enum Op {
    Set(u32, u64),
    Get(u32),
    R1(u32),
    R4(u32),
    /// compare with a state that differs in word `w` (0..7 key, 8..11 d) by bit `b`; w = 12: identical; w = 13: rebuilt directly
    Eq(u8, u8),
}
fn ops_str(ops: &[Op]) -> String {
    ops.iter()
        .map(|o| match o {
            Op::Set(p, v) => format!("s{}.{}", p, v),
            Op::Get(p) => format!("g{}", p),
            Op::R1(d) => format!("r{}", d),
            Op::R4(d) => format!("w{}", d),
            Op::Eq(w, b) => format!("e{}.{}", w, b),
        })
        .collect::<Vec<_>>()
        .join(",")
}
fn ops_parse(s: &str) -> Vec<Op> {
    s.split(',')
        .filter(|t| !t.is_empty())
        .map(|t| {
            let (k, r) = t.split_at(1);
            match k {
                "s" => {
                    let (a, b) = r.split_once('.').unwrap();
                    Op::Set(a.parse().unwrap(), b.parse().unwrap())
                }
                "g" => Op::Get(r.parse().unwrap()),
                "r" => Op::R1(r.parse().unwrap()),
                "w" => Op::R4(r.parse().unwrap()),
                "e" => {
                    let (a, b) = r.split_once('.').unwrap();
                    Op::Eq(a.parse().unwrap(), b.parse().unwrap())
                }
                _ => panic!("bad op"),
            }
        })
        .collect()
}

pub struct C15Case {
    fb: u8,
    kseed: u64,
    nonce12: bool,
    ops: Vec<Op>,
}
impl C15Case {
    fn desc(&self) -> String {
        format!("k=c15 fb={} kseed={} n12={} ops={}", self.fb, self.kseed, self.nonce12 as u8, ops_str(&self.ops))
    }
}

fn le32(b: &[u8]) -> u32 {
    u32::from_le_bytes([b[0], b[1], b[2], b[3]])
}

fn exec15(cx: &mut Ctx, c: &C15Case) {
    let (key, nonce) = super::key_nonce(c.kseed, if c.nonce12 { 12 } else { 8 });
    let sigp = if cx.prop == "C20" { format!("C20|block-api|{}", api::profile()) } else { format!("C15|{}", api::profile()) };
    let n = nonce.len();
    let mut m = Model { key, d: [0, if n == 12 { le32(&nonce[0..]) } else { 0 }, le32(&nonce[n - 8..]), le32(&nonce[n - 4..])] };
    api::force_backend(c.fb);
    let mut s = match guarded(|| ChaCha::new(&key, &nonce)) {
        Ok(s) => s,
        Err(p) => {
            cx.log.panic_violation(&format!("{}|op=new", sigp), &p);
            api::force_backend(0);
            return;
        }
    };
    for (i, op) in c.ops.iter().enumerate() {
        cx.log.eval(1);
        match op {
            Op::Set(p, v) => {
                if let Err(e) = guarded(|| s.set_stream_param(*p, *v)) {
                    cx.log.panic_violation(&format!("{}|op=set", sigp), &e);
                    break;
                }
                let other_expected = if *p == 0 { m.sid() } else { m.ctr() };
                if *p == 0 {
                    m.set_ctr(*v);
                } else {
                    m.d[2] = *v as u32;
                    m.d[3] = (*v >> 32) as u32;
                }
                let (g, o) = (s.get_stream_param(*p), s.get_stream_param(1 - *p));
                if g != *v {
                    cx.log.violation(&format!("{}|get-after-set", sigp), &format!("op #{}: set_stream_param({}, {:#x}) then get gives {:#x}", i, p, v, g));
                    break;
                }
                if o != other_expected {
                    cx.log.violation(&format!("{}|set-changed-other-param", sigp), &format!("op #{}: set_stream_param({}, ..) changed parameter {} from {:#x} to {:#x}", i, p, 1 - p, other_expected, o));
                    break;
                }
                cx.log.class(&format!("c15/set{}/{}", p, if *p == 0 { ctr_class(*v) } else { "sid" }));
            }
            Op::Get(p) => {
                let g = s.get_stream_param(*p);
                let e = if *p == 0 { m.ctr() } else { m.sid() };
                if g != e {
                    cx.log.violation(&format!("{}|get-mismatch", sigp), &format!("op #{}: get_stream_param({}) = {:#x}, model {:#x}", i, p, g, e));
                    break;
                }
                cx.log.class(&format!("c15/get{}", p));
            }
            Op::R1(dr) => {
                let mut o = [0x3Cu8; 64];
                if let Err(e) = guarded(|| s.refill(*dr, &mut o)) {
                    cx.log.panic_violation(&format!("{}|op=refill", sigp), &e);
                    break;
                }
                if o != m.block(*dr, 0) {
                    cx.log.violation(&format!("{}|output-differs-from-state-with-those-values", sigp), &format!("op #{}: refill output is not the reference block for key/counter {:#x}/stream id {:#x}", i, m.ctr(), m.sid()));
                    break;
                }
                let c1 = m.ctr().wrapping_add(1);
                m.set_ctr(c1);
                cx.log.class("c15/refill");
            }
            Op::R4(dr) => {
                let mut o = [0xB5u8; 256];
                if let Err(e) = guarded(|| s.refill4(*dr, &mut o)) {
                    cx.log.panic_violation(&format!("{}|op=refill4", sigp), &e);
                    break;
                }
                let mut bad = false;
                for k in 0..4u64 {
                    if o[64 * k as usize..64 * k as usize + 64] != m.block(*dr, k) {
                        cx.log.violation(&format!("{}|output-differs-from-state-with-those-values", sigp), &format!("op #{}: refill4 block {} is not the reference block for counter {:#x}+{}", i, k, m.ctr(), k));
                        bad = true;
                        break;
                    }
                }
                if bad {
                    break;
                }
                let c4 = m.ctr().wrapping_add(4);
                m.set_ctr(c4);
                cx.log.class("c15/refill4");
            }
            Op::Eq(w, b) => {
                // the other state: a copy of the model with one bit of one word flipped (or none)
                let mut o = m.clone();
                let kind = match *w {
                    0..=7 => {
                        let k = *w as usize;
                        let x = le32(&o.key[4 * k..]) ^ (1u32 << (*b % 32));
                        o.key[4 * k..4 * k + 4].copy_from_slice(&x.to_le_bytes());
                        "key-word"
                    }
                    8..=11 => {
                        o.d[*w as usize - 8] ^= 1u32 << (*b % 32);
                        ["d0-counter-low", "d1-counter-high", "d2-stream-low", "d3-stream-high"][*w as usize - 8]
                    }
                    12 | 13 => "identical",
                    // general pairs: several words differ at once
                    14 => {
                        // high counter word +-1 and an unrelated low counter word
                        o.d[1] = if *b % 2 == 0 { o.d[1].wrapping_add(1) } else { o.d[1].wrapping_sub(1) };
                        o.d[0] = (*b as u32).wrapping_mul(0x9e37_79b9) ^ o.d[0].rotate_left(*b as u32);
                        "d1+-1-and-d0"
                    }
                    15 => {
                        o.d[0] = o.d[0].wrapping_add(1 + *b as u32);
                        o.d[1] = o.d[1].wrapping_add(0x10000 << (*b % 8));
                        "d0-and-d1"
                    }
                    16 => {
                        o.d[0] = !o.d[0];
                        o.d[2] ^= 1 << (*b % 32);
                        "d0-and-d2"
                    }
                    17 => {
                        o.d[0] = o.d[0].wrapping_sub(1 + *b as u32);
                        "d0-only-far"
                    }
                    // the same difference in several key words (differences that would cancel in
                    // an equality folded with the wrong operator)
                    18 => {
                        let x = 1 + (*b as u8).wrapping_mul(37) % 255;
                        o.key.iter_mut().for_each(|k| *k ^= x);
                        "key-repeated-byte-difference"
                    }
                    19 => {
                        // same offset in every 8-byte word
                        for q in 0..4 {
                            o.key[8 * q + (*b as usize % 8)] ^= 0x40;
                        }
                        "key-same-offset-in-every-quadword"
                    }
                    20 => {
                        // both halves of one key row, or both key rows, differ identically
                        let w = *b as usize % 2;
                        for q in [w, w + 2, w + 4, w + 6] {
                            o.key[4 * q] ^= 1 << (*b % 8);
                        }
                        "key-rows-differ-identically"
                    }
                    _ => {
                        let x = 1u32 << (*b % 32);
                        o.d[2] ^= x;
                        o.d[3] ^= x;
                        "d2-and-d3-same-difference"
                    }
                };
                let other = make(&o.key, o.d);
                let e64 = o.key == m.key && o.d[2] == m.d[2] && o.d[3] == m.d[3];
                let e32 = e64 && o.d[1] == m.d[1];
                let eall = o == m;
                let r = guarded(|| (s.stream64_eq(&other), other.stream64_eq(&s), s.stream32_eq(&other), other.stream32_eq(&s), s == other));
                let (g64, g64r, g32, g32r, geq) = match r {
                    Ok(x) => x,
                    Err(p) => {
                        cx.log.panic_violation(&format!("{}|op=stream_eq", sigp), &p);
                        break;
                    }
                };
                cx.log.class(&format!("c15/eq/{}", kind));
                if g64 != e64 || g64r != e64 {
                    cx.log.violation(&format!("{}|stream64_eq|{}", sigp, kind), &format!("op #{}: stream64_eq = {}/{} but the model predicate is {} (difference: {} bit {})", i, g64, g64r, e64, kind, b));
                    break;
                }
                if g32 != e32 || g32r != e32 {
                    cx.log.violation(&format!("{}|stream32_eq|{}", sigp, kind), &format!("op #{}: stream32_eq = {}/{} but the model predicate is {} (difference: {} bit {})", i, g32, g32r, e32, kind, b));
                    break;
                }
                if geq != eall {
                    cx.log.violation(&format!("{}|state-eq|{}", sigp, kind), &format!("op #{}: == gives {} for states whose words {}", i, geq, if eall { "are identical" } else { "differ" }));
                    break;
                }
                if *w == 12 || *w == 13 {
                    // a state built directly with the same values must behave identically
                    let mut x = other.clone();
                    let mut y = s.clone();
                    let (mut ox, mut oy) = ([0x11u8; 64], [0xEEu8; 64]);
                    if let Err(p) = guarded(|| {
                        x.refill(10, &mut ox);
                        y.refill(10, &mut oy);
                    }) {
                        cx.log.panic_violation(&format!("{}|op=refill", sigp), &p);
                        break;
                    }
                    if ox != oy || ox != m.block(10, 0) {
                        cx.log.violation(&format!("{}|directly-built-state-differs", sigp), &format!("op #{}: a state built directly with counter {:#x} / stream id {:#x} produces different output", i, m.ctr(), m.sid()));
                        break;
                    }
                }
            }
        }
    }
    api::force_backend(0);
}

fn gen15(rng: &mut Rng, fb: u8) -> C15Case {
    let nops = 2 + rng.below(if cfg!(miri) { 5 } else { 18 }) as usize;
    let mut ops = Vec::new();
    for _ in 0..nops {
        ops.push(match rng.below(10) {
            0..=2 => Op::Set(rng.below(2) as u32, rng.edge64()),
            3 => Op::Get(rng.below(2) as u32),
            4 | 5 => Op::R1(rng.below(11) as u32),
            6 => Op::R4(rng.below(11) as u32),
            _ => Op::Eq(rng.below(22) as u8, rng.below(32) as u8),
        });
    }
    C15Case { fb, kseed: rng.u64(), nonce12: rng.below(2) == 0, ops }
}

/// One block-API history for the per-configuration conformance transcript of C20.
pub fn smoke15(cx: &mut Ctx, rng: &mut Rng, class: &str) {
    let c = gen15(rng, 0);
    cx.log.announce(&format!("algo=blockapi {}", c.desc()));
    cx.log.nontrivial();
    cx.log.class(class);
    exec15(cx, &c);
}

fn run15(cx: &mut Ctx) {
    let mut rng = cx.rng("C15");
    let levels = api::backend_levels();
    for _ in 0..cx.budget {
        let fb = *rng.pick(levels);
        let c = gen15(&mut rng, fb);
        cx.log.announce(&c.desc());
        cx.log.nontrivial();
        cx.log.class(&format!("config={}-{}/{}", api::build_kind(), api::profile(), api::BACKEND_NAMES[c.fb as usize]));
        exec15(cx, &c);
    }
}

pub fn run(cx: &mut Ctx) {
    cx.selftest(crate::refmodel::T_CHACHA);
    if cx.prop == "C14" {
        run14(cx)
    } else {
        run15(cx)
    }
}

pub fn replay(cx: &mut Ctx, desc: &str) {
    let d = Desc::parse(desc);
    if d.str("k") == "c14" {
        let c = C14Case { fb: d.u64("fb") as u8, kseed: d.u64("kseed"), nonce12: d.u64("n12") == 1, ctr: d.u64("ctr"), sid: d.u64("sid"), drounds: d.u64("dr") as u32 };
        cx.log.announce(&c.desc());
        exec14(cx, &c);
    } else {
        let c = C15Case { fb: d.u64("fb") as u8, kseed: d.u64("kseed"), nonce12: d.u64("n12") == 1, ops: ops_parse(d.get("ops").unwrap_or("")) };
        cx.log.announce(&c.desc());
        exec15(cx, &c);
    }
}
