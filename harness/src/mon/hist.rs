//! C02 / C11 — history monitor for the seekable stream ciphers.
//!
//! A history of {seek(p) in any SeekNum type, apply(n), re-apply at the same position,
//! current_pos::<T>} is executed against the real cipher while a 15-line shadow model
//! (absolute position + stream limit + reference keystream) decides, op by op, what every call
//! must return. C02 and C11 share the engine and differ in where the generator concentrates.

use super::{first_diff, key_nonce, Ctx};
use crate::api::{self, SeekTy, SEEK_TYS};
use crate::log::{guarded, Desc};
use crate::prng::Rng;
use crate::refmodel::chacha::{Layout, RefStream};

#[derive(Clone, Debug)]
pub enum Op {
    Seek { ty: SeekTy, v: u128, neg: bool },
    Apply { n: usize },
    Reapply,
    Pos { ty: SeekTy },
    /// keep a copy of the public `state` field (`Buffer: Clone`)
    Snap,
    /// put the copy back (`clone_from` or assignment): the stream continues where the copy was taken
    Restore,
}

pub fn ops_to_string(ops: &[Op]) -> String {
    let mut s = String::new();
    for (i, o) in ops.iter().enumerate() {
        if i > 0 {
            s.push(',');
        }
        match o {
            Op::Seek { ty, v, neg } => s.push_str(&format!("{}.{}.{}", if *neg { "N" } else { "S" }, ty.name(), v)),
            Op::Apply { n } => s.push_str(&format!("A.{}", n)),
            Op::Reapply => s.push('R'),
            Op::Pos { ty } => s.push_str(&format!("P.{}", ty.name())),
            Op::Snap => s.push('C'),
            Op::Restore => s.push('B'),
        }
    }
    s
}

pub fn ops_from_string(s: &str) -> Vec<Op> {
    s.split(',')
        .filter(|t| !t.is_empty())
        .map(|t| {
            let p: Vec<&str> = t.split('.').collect();
            match p[0] {
                "S" | "N" => Op::Seek { ty: SeekTy::from_name(p[1]), v: p[2].parse().unwrap(), neg: p[0] == "N" },
                "A" => Op::Apply { n: p[1].parse().unwrap() },
                "R" => Op::Reapply,
                "P" => Op::Pos { ty: SeekTy::from_name(p[1]) },
                "C" => Op::Snap,
                "B" => Op::Restore,
                _ => panic!("bad op {}", t),
            }
        })
        .collect()
}

fn region(layout: Layout, pos: u128) -> &'static str {
    let e38 = 1u128 << 38;
    let e64 = 1u128 << 64;
    if pos < 512 {
        "start"
    } else if pos + 1024 >= e38 && pos <= e38 + 1024 {
        if layout == Layout::Ietf {
            "ietf-end"
        } else {
            "2^32-blocks"
        }
    } else if pos + 2048 >= e64 {
        "2^64-bytes"
    } else {
        "elsewhere"
    }
}

pub struct Hist {
    pub ty: &'static str,
    pub fb: u8,
    pub kseed: u64,
    pub ops: Vec<Op>,
}
impl Hist {
    pub fn desc(&self) -> String {
        format!("ty={} fb={} kseed={} ops={}", self.ty, self.fb, self.kseed, ops_to_string(&self.ops))
    }
}

/// Execute one history under the shadow model. Stops at the first violation (the state of the
/// implementation is unknown afterwards).
pub fn exec(cx: &mut Ctx, h: &Hist) {
    let (layout, drounds, nlen) = api::cipher_params(h.ty);
    let (key, nonce) = key_nonce(h.kseed, nlen);
    let mut rf = RefStream::new(layout, drounds, &key, &nonce);
    let limit = rf.limit();
    let lname = match layout {
        Layout::Ietf => "ctr32",
        _ => "ctr64",
    };
    let sigp = format!("{}|{}|{}", cx.prop, lname, api::profile());
    let mut drng = Rng::new(h.kseed ^ 0xda7a);
    api::force_backend(h.fb);
    let mut ci = match guarded(|| api::new_cipher(h.ty, &key, &nonce)) {
        Ok(c) => c,
        Err(p) => {
            cx.log.panic_violation(&format!("{}|op=new", sigp), &p);
            api::force_backend(0);
            return;
        }
    };
    let mut pos: u128 = 0;
    let mut pending = false; // last position change was a seek (lazy block not generated yet)
    let mut last: Option<(u128, Vec<u8>, Vec<u8>)> = None;
    let mut nops = 0u64;
    let mut snap: Option<(Box<dyn core::any::Any>, u128, bool)> = None;
    'ops: for (i, op) in h.ops.iter().enumerate() {
        nops += 1;
        let st = if pending && pos % 64 != 0 {
            "pending"
        } else if pos % 64 != 0 {
            "buffered"
        } else {
            "empty"
        };
        let opk = match op {
            Op::Seek { .. } => "seek",
            Op::Apply { .. } => "apply",
            Op::Reapply => "reapply",
            Op::Pos { .. } => "pos",
            Op::Snap => "snapshot",
            Op::Restore => "restore",
        };
        cx.log.class(&format!("state={}/{}/{}/{}", st, region(layout, pos), lname, opk));
        cx.log.class(&format!("off={}/{}", pos % 64, st));
        match op {
            Op::Seek { ty, v, neg } => {
                // what the property demands of this seek
                let (must_ok, must_err) = if *neg {
                    (false, true)
                } else if layout == Layout::Ietf {
                    (*v <= limit, *v > limit)
                } else if *v <= u64::MAX as u128 {
                    (true, false)
                } else {
                    (false, false) // beyond "expressible in 64 bits": either outcome, checked by what follows
                };
                cx.log.class(&format!("seekty={}/{}", ty.name(), if must_ok { "in-range" } else if must_err { "out-of-range" } else { "unspecified" }));
                // where the model demands success, one seek in three goes through the provided `seek()`
                let r = if must_ok && *ty == SeekTy::U64 && (i + h.kseed as usize) % 3 == 0 {
                    guarded(|| {
                        ci.seek_infallible_u64(*v as u64);
                        Ok(())
                    })
                } else {
                    guarded(|| ci.try_seek(*ty, *v, *neg))
                };
                cx.log.eval(1);
                match r {
                    Err(p) => {
                        cx.log.panic_violation_ctx(&format!("{}|op=seek", sigp), &format!("op #{} {:?}", i, op), &p);
                        break 'ops;
                    }
                    Ok(Ok(())) => {
                        if must_err {
                            cx.log.violation(&format!("{}|seek-accepted-out-of-range", sigp), &format!("op #{} {:?} returned Ok", i, op));
                            break 'ops;
                        }
                        if *v > limit {
                            // accepted a position outside the keystream in the unspecified region: nothing to compare with
                            break 'ops;
                        }
                        pos = *v;
                        pending = true;
                        cx.log.event("seeks_ok", 1);
                    }
                    Ok(Err(())) => {
                        if must_ok {
                            cx.log.violation(&format!("{}|seek-rejected-in-range", sigp), &format!("op #{} {:?} returned Err", i, op));
                            break 'ops;
                        }
                        cx.log.event("seeks_err", 1);
                        // the property does not say where a refused seek leaves the cipher. Half of
                        // the time the history goes on from wherever the cipher says it is (what it
                        // produces next must then be the keystream of *that* position); otherwise
                        // the position is re-established by a seek
                        if (i + h.kseed as usize) % 2 == 0 {
                            if let Ok(Ok(v)) = guarded(|| ci.try_pos(SeekTy::U128)) {
                                if v >= 0 && (v as u128) <= limit {
                                    pos = v as u128;
                                    pending = pos % 64 != 0;
                                    last = None;
                                    cx.log.event("continued_from_reported_position_after_refused_seek", 1);
                                    continue;
                                }
                            }
                        }
                        if pos <= u64::MAX as u128 {
                            match guarded(|| ci.try_seek(SeekTy::U64, pos, false)) {
                                Ok(Ok(())) => pending = true,
                                Ok(Err(())) => {
                                    cx.log.violation(&format!("{}|seek-rejected-in-range", sigp), &format!("recovery seek to {} after op #{} failed", pos, i));
                                    break 'ops;
                                }
                                Err(p) => {
                                    cx.log.panic_violation_ctx(&format!("{}|op=seek", sigp), &format!("recovery seek after op #{}", i), &p);
                                    break 'ops;
                                }
                            }
                        } else {
                            break 'ops;
                        }
                    }
                }
            }
            Op::Apply { n } => {
                let orig = drng.bytes(*n);
                let mut data = orig.clone();
                let expect_ok = pos + *n as u128 <= limit;
                let r = if expect_ok && (i + h.kseed as usize) % 3 == 1 {
                    guarded(|| {
                        ci.apply_infallible(&mut data);
                        Ok(())
                    })
                } else {
                    guarded(|| ci.try_apply(&mut data))
                };
                cx.log.eval(1);
                match r {
                    Err(p) => {
                        cx.log.panic_violation_ctx(&format!("{}|op=apply", sigp), &format!("op #{} apply({}) at pos {}", i, n, pos), &p);
                        break 'ops;
                    }
                    Ok(Ok(())) => {
                        if !expect_ok {
                            cx.log.violation(&format!("{}|apply-ok-past-end", sigp), &format!("op #{} apply({}) at pos {} returned Ok past the end of the keystream", i, n, pos));
                            break 'ops;
                        }
                        let mut exp = orig.clone();
                        rf.xor(pos, &mut exp);
                        if let Some(k) = first_diff(&data, &exp) {
                            cx.log.violation(
                                &format!("{}|wrong-bytes", sigp),
                                &format!("op #{} apply({}) at pos {}: byte {} (absolute {}) is {:02x}, reference {:02x}", i, n, pos, k, pos + k as u128, data[k], exp[k]),
                            );
                            break 'ops;
                        }
                        cx.log.event("bytes_compared", *n as u64);
                        last = Some((pos, orig, data));
                        pos += *n as u128;
                        if *n > 0 {
                            pending = false;
                        }
                    }
                    Ok(Err(())) => {
                        if expect_ok {
                            cx.log.violation(&format!("{}|apply-err-in-range", sigp), &format!("op #{} apply({}) at pos {} returned Err inside the keystream", i, n, pos));
                            break 'ops;
                        }
                        cx.log.event("applies_err", 1);
                        if data != orig {
                            cx.log.violation(&format!("{}|failed-apply-modified-data", sigp), &format!("op #{} apply({}) at pos {} failed but changed the buffer", i, n, pos));
                            break 'ops;
                        }
                    }
                }
            }
            Op::Reapply => {
                let (start, orig, mut out) = match last.take() {
                    Some(l) if l.0 <= u64::MAX as u128 => l,
                    _ => continue,
                };
                let r = guarded(|| {
                    ci.try_seek(SeekTy::U64, start, false)?;
                    ci.try_apply(&mut out)
                });
                cx.log.eval(1);
                match r {
                    Err(p) => {
                        cx.log.panic_violation_ctx(&format!("{}|op=reapply", sigp), &format!("op #{} seek({})+apply({})", i, start, out.len()), &p);
                        break 'ops;
                    }
                    Ok(Err(())) => {
                        cx.log.violation(&format!("{}|reapply-err", sigp), &format!("op #{}: seek back to {} and apply({}) failed although it succeeded before", i, start, out.len()));
                        break 'ops;
                    }
                    Ok(Ok(())) => {
                        if out != orig {
                            cx.log.violation(&format!("{}|double-apply-not-identity", sigp), &format!("op #{}: applying twice at pos {} (len {}) did not restore the data", i, start, out.len()));
                            break 'ops;
                        }
                        cx.log.event("double_applies", 1);
                        pos = start + out.len() as u128;
                        pending = out.is_empty();
                    }
                }
            }
            Op::Snap => match guarded(|| ci.snapshot()) {
                Ok(b) => {
                    snap = Some((b, pos, pending));
                    cx.log.event("state_snapshots", 1);
                }
                Err(p) => {
                    cx.log.panic_violation_ctx(&format!("{}|op=snapshot", sigp), &format!("op #{}", i), &p);
                    break 'ops;
                }
            },
            Op::Restore => {
                if let Some((b, p0, pend0)) = snap.as_ref() {
                    if let Err(p) = guarded(|| ci.restore(&**b, i % 2 == 0)) {
                        cx.log.panic_violation_ctx(&format!("{}|op=restore", sigp), &format!("op #{}", i), &p);
                        break 'ops;
                    }
                    pos = *p0;
                    pending = *pend0;
                    last = None;
                    cx.log.event("state_restores", 1);
                }
            }
            Op::Pos { ty } => {
                let fits = pos <= ty.max();
                let r = if *ty == SeekTy::U128 && (i + h.kseed as usize) % 2 == 0 {
                    guarded(|| Ok(ci.pos_infallible_u128() as i128))
                } else {
                    guarded(|| ci.try_pos(*ty))
                };
                cx.log.eval(1);
                match r {
                    Err(p) => {
                        cx.log.panic_violation_ctx(&format!("{}|op=current_pos", sigp), &format!("op #{} {:?} at pos {}", i, op, pos), &p);
                        // &self call: the cipher state is untouched, keep going
                    }
                    Ok(Ok(v)) => {
                        if !fits || v != pos as i128 {
                            cx.log.violation(&format!("{}|current-pos-mismatch", sigp), &format!("op #{} {:?}: reported {}, absolute position is {}", i, op, v, pos));
                            break 'ops;
                        }
                        cx.log.event("pos_ok", 1);
                    }
                    Ok(Err(())) => {
                        if fits {
                            cx.log.violation(&format!("{}|current-pos-err", sigp), &format!("op #{} {:?}: Err although position {} fits the type", i, op, pos));
                            break 'ops;
                        }
                        cx.log.event("pos_overflow_err", 1);
                    }
                }
            }
        }
    }
    api::force_backend(0);
    cx.log.event("ops_executed", nops);
}

/// Pick a seek type that can represent `v` (biased to exercise all types).
fn ty_for(r: &mut Rng, v: u128) -> SeekTy {
    let fits: Vec<SeekTy> = SEEK_TYS.iter().copied().filter(|t| v <= t.max()).collect();
    *r.pick(&fits)
}

/// A sequential run across a counter boundary: one seek to a few blocks below a multiple of
/// 2^32 blocks (block-aligned half of the time), then several applies of assorted lengths with
/// no seek in between, so that every buffered / wide / tail path is continued across the boundary.
fn gen_run_ops(r: &mut Rng, layout: Layout, maxops: usize) -> Vec<Op> {
    let e38 = 1u128 << 38;
    let boundary: u128 = if layout == Layout::Ietf {
        e38
    } else {
        match r.below(4) {
            0 => e38,
            1 => e38 * (2 + r.below(1 << 20) as u128),
            2 => 1u128 << 64,
            _ => e38 * (1 + r.below(7) as u128),
        }
    };
    let back = 64 * r.below(9) as u128 + if r.below(2) == 0 { 0 } else { r.below(64) as u128 };
    let start = boundary - back.min(boundary);
    let mut ops = vec![Op::Seek { ty: if start > u64::MAX as u128 { SeekTy::U128 } else { SeekTy::U64 }, v: start.min(u64::MAX as u128), neg: false }];
    let n = 2 + r.below(5.min(maxops as u64 - 1)) as usize;
    let mut pos = start.min(u64::MAX as u128);
    for _ in 0..n {
        let len = match r.below(8) {
            0 => 64 * r.range(1, 8) as usize,
            1 => 129 + r.below(64) as usize,
            2 => 193 + r.below(63) as usize,
            3 => 256 * r.range(1, 3) as usize + r.below(256) as usize,
            4 => 1 + r.below(63) as usize,
            _ => r.below(700) as usize,
        };
        // the 32-bit counter cannot go past its end: stop exactly there
        let len = if layout == Layout::Ietf && pos + len as u128 > e38 { (e38 - pos) as usize } else { len };
        ops.push(Op::Apply { n: len });
        pos += len as u128;
        if r.below(4) == 0 {
            ops.push(Op::Pos { ty: SeekTy::U128 });
        }
    }
    ops
}

fn gen_ops(r: &mut Rng, layout: Layout, c11: bool, maxops: usize) -> Vec<Op> {
    if r.below(5) == 0 {
        return gen_run_ops(r, layout, maxops);
    }
    let limit: u128 = if layout == Layout::Ietf { 1 << 38 } else { 1 << 70 };
    let nops = 1 + r.below(maxops as u64) as usize;
    let mut ops = Vec::with_capacity(nops);
    let mut pos: u128 = 0; // generator's own idea of the position (only used to aim)
    let lens: [usize; 14] = [0, 1, 2, 63, 64, 65, 127, 128, 255, 256, 257, 511, 512, 513];
    while ops.len() < nops {
        let k = r.below(100);
        if k < 40 {
            // ---- seek
            let e38 = 1u128 << 38;
            let e64 = 1u128 << 64;
            let sel = if c11 { r.below(8) + 4 } else { r.below(12) };
            let v: u128 = match sel {
                0 => pos.saturating_sub(r.below(130) as u128),          // a little backwards
                1 => pos + r.below(130) as u128,                         // a little forwards
                2 => 1 + r.below(63) as u128,                            // mid-block in block 0
                3 => 64 * r.below(6) as u128 + r.below(64) as u128,      // first blocks
                4 | 5 => (e38 + 300).saturating_sub(r.below(600) as u128), // around 2^38 bytes = 2^32 blocks
                6 => e38 - 64 * (1 + r.below(5)) as u128 + r.below(64) as u128, // the last IETF blocks / before the carry
                7 => e38,                                                // exactly the IETF end
                8 | 9 => e64 - 1 - r.below(700) as u128,                 // top of the u64 range
                10 => r.below(300) as u128,                              // tiny (u8-representable)
                _ => r.u64() as u128 % limit.min(e64),
            };
            let v = if layout != Layout::Ietf && v > u64::MAX as u128 { u64::MAX as u128 } else { v };
            // sometimes go out of range on purpose
            let oor = r.below(if c11 { 6 } else { 14 }) == 0;
            if oor {
                match r.below(4) {
                    0 => ops.push(Op::Seek { ty: SeekTy::I32, v: 1 + r.below(1000) as u128, neg: true }),
                    1 => ops.push(Op::Seek { ty: SeekTy::U128, v: (1u128 << 64) + r.below(1 << 20) as u128, neg: false }),
                    2 => ops.push(Op::Seek { ty: *r.pick(&[SeekTy::U64, SeekTy::U128, SeekTy::Usize]), v: e38 + 1 + r.below(200) as u128, neg: false }),
                    _ => ops.push(Op::Seek { ty: SeekTy::U64, v: u64::MAX as u128 - r.below(3) as u128, neg: false }),
                }
                // the generator's aim is unaffected if that fails; if it succeeds (64-bit counter) it moved
                if let Some(Op::Seek { v, neg: false, .. }) = ops.last() {
                    if layout != Layout::Ietf && *v <= u64::MAX as u128 {
                        pos = *v;
                    }
                }
                continue;
            }
            let ty = ty_for(r, v);
            ops.push(Op::Seek { ty, v, neg: false });
            pos = v;
        } else if k < 80 {
            // ---- apply
            let mut n = match r.below(40) {
                0..=19 => *r.pick(&lens),
                20..=31 => r.below(200) as usize,
                // now and then many KiB in one call
                32 if !cfg!(miri) => 4096 * r.range(1, 9) as usize + [0usize, 1, 64, 255][r.below(4) as usize],
                _ => r.below(1200) as usize,
            };
            // aim at the limit: end 1 short / exactly at / 1 past
            if pos <= limit && limit - pos < 2000 && r.below(2) == 0 {
                let room = (limit - pos) as usize;
                n = match r.below(4) {
                    0 => room.saturating_sub(1),
                    1 => room,
                    2 => room + 1,
                    _ => room + r.below(300) as usize,
                };
            }
            ops.push(Op::Apply { n });
            if pos + n as u128 <= limit {
                pos += n as u128;
            }
        } else if k < 87 {
            ops.push(Op::Reapply);
        } else if k < 91 {
            ops.push(if r.below(2) == 0 { Op::Snap } else { Op::Restore });
        } else {
            let ty = *r.pick(&SEEK_TYS);
            ops.push(Op::Pos { ty });
        }
    }
    ops
}

/// One `apply_keystream` call on more than 2^32 bytes ("arbitrary lengths"): the per-call length
/// arithmetic must not truncate. The buffer starts as zeros, so afterwards it is the keystream;
/// windows at the start, around every multiple of 2^32 bytes of the request, around the counter
/// carry if the request crosses one, at the end and at 64 seeded places are compared with the
/// reference, and the reported position must be pos + len. `over` = the request overshoots the
/// IETF limit by that many bytes: it must be refused and leave the buffer untouched.
pub struct HugeApply {
    pub ty: &'static str,
    pub kseed: u64,
    pub pos: u128,
    pub len: u64,
}
impl HugeApply {
    pub fn desc(&self) -> String {
        format!("huge=1 ty={} kseed={} pos={} len={}", self.ty, self.kseed, self.pos, self.len)
    }
}

pub fn exec_huge(cx: &mut Ctx, c: &HugeApply) {
    let (layout, drounds, nlen) = api::cipher_params(c.ty);
    let (key, nonce) = key_nonce(c.kseed, nlen);
    let mut rf = RefStream::new(layout, drounds, &key, &nonce);
    let lname = if layout == Layout::Ietf { "ctr32" } else { "ctr64" };
    let sigp = format!("{}|{}|{}", cx.prop, lname, api::profile());
    let len = c.len as usize;
    let expect_ok = c.pos + c.len as u128 <= rf.limit();
    let mut data = vec![0u8; len]; // lazily zero-backed
    let r = guarded(|| {
        let mut ci = api::new_cipher(c.ty, &key, &nonce);
        ci.try_seek(if c.pos > u64::MAX as u128 { SeekTy::U128 } else { SeekTy::U64 }, c.pos, false)?;
        let r = ci.try_apply(&mut data);
        Ok::<_, ()>((r, ci.try_pos(SeekTy::U128)))
    });
    cx.log.eval(1);
    cx.log.event("bytes_in_single_apply_calls", c.len);
    let (res, posr) = match r {
        Err(p) => {
            cx.log.panic_violation(&format!("{}|op=huge-apply", sigp), &p);
            return;
        }
        Ok(Err(())) => {
            cx.log.violation(&format!("{}|seek-rejected-in-range", sigp), &format!("seek to {} failed", c.pos));
            return;
        }
        Ok(Ok(x)) => x,
    };
    // windows of the request to look at (relative offsets)
    let mut wins: Vec<(usize, usize)> = vec![(0, 8192.min(len)), (len.saturating_sub(8192), len)];
    let mut k = 1usize << 32;
    while k < len {
        wins.push((k - 4096, (k + 4096).min(len)));
        k += 1usize << 32;
    }
    let e38 = 1u128 << 38;
    let next_carry = (c.pos / e38 + 1) * e38;
    if next_carry < c.pos + c.len as u128 {
        let o = (next_carry - c.pos) as usize;
        wins.push((o.saturating_sub(4096), (o + 4096).min(len)));
    }
    let mut wr = Rng::new(c.kseed ^ 0x1a96e);
    for _ in 0..64 {
        let o = wr.below(c.len) as usize;
        wins.push((o, (o + 256).min(len)));
    }
    if !expect_ok {
        if res.is_ok() {
            cx.log.violation(&format!("{}|apply-ok-past-end", sigp), &format!("apply({}) at pos {} returned Ok past the end of the keystream", c.len, c.pos));
            return;
        }
        for (a, b) in wins {
            if data[a..b].iter().any(|&x| x != 0) {
                cx.log.violation(&format!("{}|failed-apply-modified-data", sigp), &format!("apply({}) at pos {} failed but changed bytes {}..{} of the buffer", c.len, c.pos, a, b));
                return;
            }
        }
        cx.log.event("applies_err", 1);
        return;
    }
    if res.is_err() {
        cx.log.violation(&format!("{}|apply-err-in-range", sigp), &format!("apply({}) at pos {} returned Err inside the keystream", c.len, c.pos));
        return;
    }
    let mut compared = 0u64;
    for (a, b) in wins {
        let mut e = vec![0u8; b - a];
        rf.xor(c.pos + a as u128, &mut e);
        if let Some(i) = first_diff(&data[a..b], &e) {
            cx.log.violation(
                &format!("{}|wrong-bytes", sigp),
                &format!("one apply({}) at pos {}: byte {} (absolute {}) is {:02x}, reference {:02x}", c.len, c.pos, a + i, c.pos + (a + i) as u128, data[a + i], e[i]),
            );
            return;
        }
        compared += (b - a) as u64;
    }
    cx.log.event("bytes_compared", compared);
    match posr {
        Ok(v) if v as u128 == c.pos + c.len as u128 => cx.log.event("pos_ok", 1),
        other => cx.log.violation(&format!("{}|current-pos-mismatch", sigp), &format!("after one apply({}) at pos {} the position reads {:?}", c.len, c.pos, other)),
    }
}

fn huge_menu(c11: bool, thorough: bool) -> Vec<HugeApply> {
    let g4 = 1u64 << 32;
    let e38 = 1u128 << 38;
    let mut v = Vec::new();
    if c11 {
        // ends exactly at the IETF limit / one byte past it
        v.push(HugeApply { ty: "Ietf", kseed: 11, pos: e38 - (g4 + 77) as u128, len: g4 + 77 });
        v.push(HugeApply { ty: "Ietf", kseed: 12, pos: e38 - (g4 + 5) as u128, len: g4 + 6 });
        if thorough {
            v.push(HugeApply { ty: "ChaCha8", kseed: 13, pos: (1u128 << 64) - 1 - (2 * g4 + 64) as u128, len: 2 * g4 + 64 });
        }
    } else {
        // crosses a counter carry in the middle of the request
        v.push(HugeApply { ty: "ChaCha20", kseed: 21, pos: 3 * e38 - (g4 / 2) as u128 - 19, len: g4 + 4096 + 3 });
        if thorough {
            v.push(HugeApply { ty: "Ietf", kseed: 22, pos: 64 * 5 + 7, len: g4 + 1 });
            v.push(HugeApply { ty: "XChaCha12", kseed: 23, pos: 0, len: 2 * g4 + 300 });
            v.push(HugeApply { ty: "ChaCha12", kseed: 24, pos: e38 - 100, len: g4 });
        }
    }
    v
}

pub fn run(cx: &mut Ctx) {
    cx.selftest(crate::refmodel::T_CHACHA);
    // the single calls on more than 4 GiB run once, in the optimised std build, on the first shards
    if cx.arg("huge").map(|v| v == "1").unwrap_or(false) && !cfg!(miri) {
        for (i, hc) in huge_menu(cx.prop == "C11", cx.thorough).into_iter().enumerate() {
            if i as u64 % cx.nshards != cx.shard {
                continue;
            }
            cx.log.announce(&hc.desc());
            cx.log.nontrivial();
            cx.log.class(&format!("single-apply-over-4GiB/{}", hc.ty));
            exec_huge(cx, &hc);
        }
    }
    let c11 = cx.prop == "C11";
    let mut rng = cx.rng(if c11 { "C11" } else { "C02" });
    let levels = api::backend_levels();
    let maxops = if cfg!(miri) { 8 } else { 40 };
    for i in 0..cx.budget {
        // C11 is mostly about the 32-bit counter: every other history uses Ietf there
        let ty = if c11 && i % 2 == 0 { "Ietf" } else { api::CIPHERS[((i / 2 + cx.shard) % 7) as usize] };
        let (layout, _, _) = api::cipher_params(ty);
        let fb = if rng.below(4) == 0 { *rng.pick(levels) } else { 0 };
        let ops = gen_ops(&mut rng, layout, c11, maxops);
        let h = Hist { ty, fb, kseed: rng.u64(), ops };
        cx.log.announce(&h.desc());
        let kinds = h.ops.iter().map(|o| std::mem::discriminant(o)).collect::<std::collections::HashSet<_>>().len();
        if h.ops.len() >= 2 && kinds >= 2 {
            cx.log.nontrivial();
        }
        cx.log.class(&format!("histlen={}", (h.ops.len() + 9) / 10 * 10));
        cx.log.class(&format!("config={}-{}/{}", api::build_kind(), api::profile(), api::BACKEND_NAMES[fb as usize]));
        exec(cx, &h);
    }
}

pub fn replay(cx: &mut Ctx, desc: &str) {
    let d = Desc::parse(desc);
    let ty = api::CIPHERS.iter().find(|t| **t == d.str("ty")).expect("cipher type");
    if d.get("huge").is_some() {
        let c = HugeApply { ty, kseed: d.u64("kseed"), pos: d.u128("pos"), len: d.u64("len") };
        cx.log.announce(&c.desc());
        return exec_huge(cx, &c);
    }
    let h = Hist { ty, fb: d.u64("fb") as u8, kseed: d.u64("kseed"), ops: ops_from_string(d.get("ops").unwrap_or("")) };
    cx.log.announce(&h.desc());
    exec(cx, &h);
}
