//! C20 (runtime half) — in every semantically distinct build configuration (std dispatch, no-std
//! compile-time dispatch, no_simd, no_unroll) the same smoke transcript of every algorithm must
//! match the reference models: a feature only selects an implementation, never a result.

use super::{blockapi, c01, hashdiff, tf, xback, Ctx};
use crate::api::{self, Fam, HashId};
use crate::prng::Rng;

pub fn run(cx: &mut Ctx) {
    cx.selftest(crate::refmodel::T_ALL);
    // the transcript depends on the seed only, so every configuration executes the same cases
    let mut rng = Rng::new(crate::prng::mix(&[cx.seed, cx.shard, 0xc20]));
    let cfg = format!(
        "{}-{}{}",
        api::build_kind(),
        api::profile(),
        if cfg!(feature = "nounroll") { "+no_unroll" } else { "" }
    );
    let mut hashes = api::hashes15(32);
    for n in [1usize, 7, 33, 100, 257] {
        hashes.push(HashId { fam: Fam::Skein, bits: 512, out: n });
    }
    for i in 0..cx.budget {
        match i % 6 {
            4 => blockapi::smoke15(cx, &mut rng, &format!("conformance/{}/block-api", cfg)),
            5 => xback::smoke_kernel(cx, rng.u64(), &format!("conformance/{}/vector-kernel", cfg)),
            0 => {
                let ty = api::CIPHERS[rng.below(7) as usize];
                let len = rng.below(700) as usize;
                let pos = if ty == "Ietf" { rng.below(1 << 30) } else { rng.u64() >> rng.below(40) } as u128;
                let c = c01::Case { ty, fb: 0, kseed: rng.u64(), pos, len, pre: 0 };
                cx.log.announce(&format!("algo=chacha {}", c.desc()));
                cx.log.nontrivial();
                cx.log.class(&format!("conformance/{}/chacha", cfg));
                c01::exec(cx, &c);
            }
            1 | 2 => {
                let id = *rng.pick(&hashes);
                let len = rng.below(4 * id.block_size() as u64 + 9) as usize;
                let c = hashdiff::Case { id, fb: 0, len, pat: 3, mseed: rng.u64() };
                cx.log.announce(&format!("algo=hash {}", c.desc()));
                cx.log.nontrivial();
                cx.log.class(&format!("conformance/{}/{:?}", cfg, id.fam));
                hashdiff::exec(cx, &c);
            }
            _ => {
                let c = tf::Case { nb: [32usize, 64, 128][rng.below(3) as usize], seed: rng.u64(), kind: 4, use_new: rng.below(5) == 0 };
                cx.log.announce(&format!("algo=threefish {}", c.desc()));
                cx.log.nontrivial();
                cx.log.class(&format!("conformance/{}/threefish", cfg));
                tf::exec_mode(cx, &c, true, true);
            }
        }
    }
}

pub fn replay(cx: &mut Ctx, desc: &str) {
    let d = crate::log::Desc::parse(desc);
    match d.str("algo") {
        "chacha" => c01::replay(cx, desc),
        "blockapi" => blockapi::replay(cx, desc),
        "kernel" => xback::smoke_kernel(cx, d.u64("seed"), "replay"),
        "hash" => hashdiff::replay(cx, desc),
        _ => {
            let c = tf::Case { nb: d.u64("nb") as usize, seed: d.u64("seed"), kind: d.u64("kind") as u8, use_new: d.u64("new") == 1 };
            cx.log.announce(desc);
            tf::exec_mode(cx, &c, true, true);
        }
    }
}
