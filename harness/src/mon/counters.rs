//! C17 — hash length counters stay exact for very long messages and at word boundaries.
//!  (a) conservation: while really streaming N bytes, the hooked counter (H2) must equal the value
//!      the format defines for N after every update call; the final digest is compared with the
//!      reference where the reference is fast enough;
//!  (b) fast-forward differential: implementation and reference absorb the same k real blocks,
//!      both counters are overwritten with C just below a word boundary, a tail crossing the
//!      boundary is absorbed, counters and digests must agree.

use super::Ctx;
use crate::api::{self, Fam, HashId};
use crate::log::{guarded, Desc};
use crate::prng::{hex, Rng};
use crate::refmodel as R;

#[derive(Clone)]
pub enum RefH {
    B(R::blake::RefBlake),
    G(R::groestl::RefGroestl),
    J(R::jh::RefJh),
    S(R::threefish::RefSkein),
}
impl RefH {
    pub fn new(id: &HashId) -> RefH {
        match id.fam {
            Fam::Blake => RefH::B(R::blake::RefBlake::new(id.bits)),
            Fam::Groestl => RefH::G(R::groestl::RefGroestl::new(id.bits)),
            Fam::Jh => RefH::J(R::jh::RefJh::new(id.bits)),
            Fam::Skein => RefH::S(R::threefish::RefSkein::new(id.bits as usize / 8, id.out)),
        }
    }
    pub fn update(&mut self, d: &[u8]) {
        match self {
            RefH::B(x) => x.update(d),
            RefH::G(x) => x.update(d),
            RefH::J(x) => x.update(d),
            RefH::S(x) => x.update(d),
        }
    }
    pub fn set_counter(&mut self, c: u128) {
        match self {
            RefH::B(x) => x.set_counter(c),
            RefH::G(x) => x.set_counter(c as u64),
            RefH::J(x) => x.set_counter(c),
            RefH::S(x) => x.set_counter(c),
        }
    }
    /// the counter in the unit of the implementation's hook, reduced to the hook's width
    fn counter(&self, id: &HashId) -> u128 {
        match self {
            RefH::B(x) => {
                if id.bits <= 256 {
                    x.t & (u64::MAX as u128)
                } else {
                    x.t
                }
            }
            RefH::G(x) => x.blocks as u128,
            RefH::J(x) => x.len & (u64::MAX as u128),
            RefH::S(x) => x.pos & (u64::MAX as u128),
        }
    }
    pub fn finalize(&self) -> Vec<u8> {
        match self {
            RefH::B(x) => x.finalize(),
            RefH::G(x) => x.finalize(),
            RefH::J(x) => x.finalize(),
            RefH::S(x) => x.finalize(),
        }
    }
}

/// counter value the format defines after absorbing `n` bytes through update calls
fn expected_counter(id: &HashId, n: u128) -> u128 {
    let bs = id.block_size() as u128;
    match id.fam {
        Fam::Blake => 8 * bs * (n / bs),
        Fam::Groestl => n / bs,
        Fam::Jh => n,
        Fam::Skein => {
            if n == 0 {
                0
            } else {
                ((n - 1) / bs) * bs
            }
        }
    }
}

// ---------------------------------------------------------------- (b) fast-forward

pub struct FfCase {
    id: HashId,
    k: usize,     // real blocks absorbed first
    c: u128,      // counter value written through the hook
    tail: usize,  // bytes absorbed afterwards
    seed: u64,
}
impl FfCase {
    fn desc(&self) -> String {
        format!("k=ff h={} pre={} c={} tail={} seed={}", self.id.name(), self.k, self.c, self.tail, self.seed)
    }
}

fn exec_ff(cx: &mut Ctx, c: &FfCase) {
    let id = c.id;
    let bs = id.block_size();
    let mut r = Rng::new(c.seed);
    // Skein holds the last block back: feed k blocks + one more so that k are really processed
    let pre_len = if id.fam == Fam::Skein { (c.k + 1) * bs } else { c.k * bs };
    let pre = r.bytes(pre_len);
    let tail = r.bytes(c.tail);
    let post = r.bytes((c.seed >> 8) as usize % (2 * bs + 2));
    let sigp = format!("{}|{}|{}", cx.prop, id.name(), api::profile());
    let mut m = RefH::new(&id);
    m.update(&pre);
    m.set_counter(c.c);
    m.update(&tail);
    let res = guarded(|| {
        let mut h = id.new();
        h.update(&pre);
        h.set_counter(c.c);
        // feed the tail in two pieces so a quiescent point lies inside it
        let cut = c.tail / 2;
        h.update(&tail[..cut]);
        let mid = h.counter();
        h.update(&tail[cut..]);
        let end = h.counter();
        // two cases in three go on using the instance: the counter words must all be back to
        // "nothing absorbed" after finalize_reset() / reset(), also the ones beyond the first
        match c.seed % 3 {
            0 => (mid, end, h.finalize_box(), None),
            k => {
                let dig = if k == 1 {
                    h.finalize_reset()
                } else {
                    let d = h.box_clone().finalize_box();
                    h.reset();
                    d
                };
                let c0 = h.counter();
                h.update(&post);
                (mid, end, dig, Some((c0, h.finalize_box())))
            }
        }
    });
    cx.log.eval(1);
    let (_mid, end, dig, reused) = match res {
        Ok(x) => x,
        Err(p) => {
            cx.log.panic_violation(&format!("{}|fast-forward", sigp), &p);
            return;
        }
    };
    let ec = m.counter(&id);
    if end != ec {
        cx.log.violation(&format!("{}|counter-after-boundary", sigp), &format!("counter set to {:#x}, {} more bytes absorbed: hook reads {:#x}, the format defines {:#x}", c.c, c.tail, end, ec));
    }
    let ed = m.finalize();
    if dig != ed {
        cx.log.violation(&format!("{}|digest-after-boundary", sigp), &format!("counter set to {:#x}, tail {} bytes: digest {} reference {}", c.c, c.tail, hex(&dig), hex(&ed)));
    }
    if let Some((c0, got)) = reused {
        cx.log.eval(1);
        cx.log.event("instances_reused_after_a_long_message", 1);
        if c0 != 0 {
            cx.log.violation(&format!("{}|counter-after-reset", sigp), &format!("after a message that took the counter to {:#x} the instance was reset: the hook reads {:#x}, not 0", end, c0));
        }
        let e = id.reference(&post);
        if got != e {
            cx.log.violation(&format!("{}|digest-after-long-message-and-reset", sigp), &format!("instance reset after its counter had reached {:#x}: digest of the next message ({} bytes) is {} reference {}", end, post.len(), hex(&got), hex(&e)));
        }
    }
}

fn boundaries(id: &HashId) -> Vec<(u128, &'static str)> {
    // (boundary in counter units, label); tails stay below the format limits
    match id.fam {
        Fam::Blake => {
            if id.bits <= 256 {
                vec![(1 << 32, "2^32-bits"), (1 << 40, "2^40-bits"), (1 << 56, "2^56-bits"), ((1 << 64) - (1 << 14), "below-2^64-bits")]
            } else {
                vec![(1 << 32, "2^32-bits"), (1 << 64, "2^64-bits-low-word-carry"), (1 << 96, "2^96-bits"), ((1u128 << 127), "2^127-bits")]
            }
        }
        Fam::Groestl => vec![(1 << 8, "2^8-blocks"), (1 << 16, "2^16-blocks"), (1 << 32, "2^32-blocks"), (1 << 48, "2^48-blocks"), ((1 << 64) - 64, "below-2^64-blocks")],
        Fam::Jh => vec![(1 << 29, "2^32-bits"), (1 << 32, "2^32-bytes"), (1 << 40, "2^40-bytes"), ((1 << 61) - (1 << 12), "below-2^61-bytes")],
        Fam::Skein => vec![(1 << 32, "2^32-bytes"), (1 << 40, "2^40-bytes"), (1 << 63, "2^63-bytes"), ((1 << 64) - (1 << 12), "below-2^64-bytes")],
    }
}

fn run_ff(cx: &mut Ctx, n: u64) {
    let menu = api::hashes15(64);
    run_ff_menu(cx, n, &menu)
}

/// A boundary for the counter of `id` and a counter value a few blocks below it (used by other
/// monitors to start a history "late" in a very long message).
pub fn late_counter(rng: &mut Rng, id: &HashId) -> u128 {
    let b = boundaries(id);
    let (bd, _) = b[rng.below(b.len() as u64 - 1) as usize];
    let bs = id.block_size() as u128;
    let unit: u128 = match id.fam {
        Fam::Blake => 8 * bs,
        Fam::Groestl => 1,
        Fam::Jh | Fam::Skein => bs,
    };
    bd - (1 + rng.below(3) as u128) * unit
}

/// Fast-forward cases for the given hash types (the digest monitors use this for a handful of
/// "very long message" cases of their own family).
pub fn run_ff_menu(cx: &mut Ctx, n: u64, menu: &[HashId]) {
    let mut rng = cx.rng("C17ff");
    for i in 0..n {
        let id = menu[((i + cx.shard) % menu.len() as u64) as usize];
        let bs = id.block_size() as u128;
        let b = boundaries(&id);
        let (bd, label) = b[(i / menu.len() as u64 % b.len() as u64) as usize];
        let unit: u128 = match id.fam {
            Fam::Blake => 8 * bs, // counter units per block
            Fam::Groestl => 1,
            Fam::Jh | Fam::Skein => bs,
        };
        // start 0..3 blocks below the boundary (sometimes exactly on it, sometimes unaligned)
        let below = rng.below(4) as u128;
        let mut c = bd - below * unit;
        if rng.below(5) == 0 && id.fam != Fam::Groestl {
            c = c.wrapping_sub(8 * rng.below(unit as u64 / 8).max(1) as u128);
        }
        let tail = (rng.below(5) as usize) * bs as usize + rng.below(bs as u64) as usize + if label.starts_with("below") { 0 } else { 1 };
        let tail = if label.starts_with("below") { tail.min(3 * bs as usize) } else { tail };
        let fc = FfCase { id, k: rng.below(3) as usize, c, tail, seed: rng.u64() };
        cx.log.announce(&fc.desc());
        cx.log.nontrivial();
        cx.log.class(&format!("ff/{}/{}", id.fam_name(), label));
        cx.log.class(&format!("ff/type={}", id.name()));
        exec_ff(cx, &fc);
    }
}

// ---------------------------------------------------------------- (a) real streaming

pub struct StreamCase {
    id: HashId,
    total: u64,
    piece: usize,
    check_digest: bool,
}
impl StreamCase {
    fn desc(&self) -> String {
        format!("k=stream h={} total={} piece={} digest={}", self.id.name(), self.total, self.piece, self.check_digest as u8)
    }
}

fn exec_stream(cx: &mut Ctx, c: &StreamCase) {
    let id = c.id;
    let sigp = format!("C17|{}|{}", id.name(), api::profile());
    // patterned stream: a 1 MiB + 37 byte ring, so pieces never align with it
    let ring: Vec<u8> = (0..(1usize << 20) + 37).map(|i| (i as u32).wrapping_mul(2654435761).rotate_right(11) as u8).collect();
    let mut m = if c.check_digest { Some(RefH::new(&id)) } else { None };
    let res = guarded(|| {
        let mut h = id.new();
        let mut fed: u64 = 0;
        let mut rp = 0usize;
        let mut calls = 0u64;
        let mut buf = vec![0u8; c.piece];
        let mut bad: Option<(u64, u128, u128)> = None;
        while fed < c.total {
            let n = (c.piece as u64).min(c.total - fed) as usize;
            for b in buf[..n].iter_mut() {
                *b = ring[rp];
                rp += 1;
                if rp == ring.len() {
                    rp = 0;
                }
            }
            h.update(&buf[..n]);
            if let Some(mm) = m.as_mut() {
                mm.update(&buf[..n]);
            }
            fed += n as u64;
            calls += 1;
            let (got, exp) = (h.counter(), expected_counter(&id, fed as u128));
            if got != exp && bad.is_none() {
                bad = Some((fed, got, exp));
            }
        }
        (h.finalize_box(), calls, bad)
    });
    let (dig, calls, bad) = match res {
        Ok(x) => x,
        Err(p) => {
            cx.log.panic_violation(&format!("{}|stream", sigp), &p);
            return;
        }
    };
    cx.log.eval(calls);
    cx.log.event("bytes_really_streamed", c.total);
    cx.log.event(&format!("streamed/{}", id.name()), c.total);
    if let Some((at, got, exp)) = bad {
        cx.log.violation(&format!("{}|counter-conservation", sigp), &format!("after really absorbing {} bytes the hooked counter is {:#x}, the format defines {:#x}", at, got, exp));
    }
    if let Some(mm) = m {
        let e = mm.finalize();
        cx.log.event("streams_with_digest_verified", 1);
        if dig != e {
            cx.log.violation(&format!("{}|stream-digest", sigp), &format!("digest of a {}-byte stream is {} reference {}", c.total, hex(&dig), hex(&e)));
        }
    }
}

// ---------------------------------------------------------------- (c) one huge update call

/// One `update()` call whose slice is longer than 2^32 bytes, or that takes a counter across its
/// first word boundary in a single call (a file read or mapped whole): the per-call length and
/// carry arithmetic must not truncate either. Oracles: the hooked counter after the
/// call, the digest of the same bytes fed in pieces, and (where the model is fast) the reference.
pub struct HugeCase {
    id: HashId,
    total: u64,
    chunked: bool,
    refd: bool,
}
impl HugeCase {
    fn desc(&self) -> String {
        format!("k=huge h={} total={} chunked={} ref={}", self.id.name(), self.total, self.chunked as u8, self.refd as u8)
    }
}

#[cfg(miri)]
fn exec_huge(_cx: &mut Ctx, _c: &HugeCase) {}

#[cfg(not(miri))]
fn exec_huge(cx: &mut Ctx, c: &HugeCase) {
    let id = c.id;
    let sigp = format!("{}|{}|{}", cx.prop, id.name(), api::profile());
    // 513 pages: the period does not divide 2^32, so the bytes beyond 4 GiB differ from those at the start
    let pattern: Vec<u8> = (0..(2usize << 20) + 4096).map(|i| (i as u32).wrapping_mul(2654435761).rotate_right(9) as u8 ^ (i >> 13) as u8).collect();
    let win = match crate::guard::RingWindow::new(&pattern, c.total as usize) {
        Ok(w) => w,
        Err(e) => {
            cx.log.note("inconclusive", &format!("could not build a {}-byte window for {}: {}", c.total, c.desc(), e));
            eprintln!("INCONCLUSIVE could not build a {}-byte window: {}", c.total, e);
            std::process::exit(3);
        }
    };
    let data = win.slice();
    let res = guarded(|| {
        let mut h = id.new();
        h.update(data);
        let ctr = h.counter();
        (h.finalize_box(), ctr)
    });
    let (dig, ctr) = match res {
        Ok(x) => x,
        Err(p) => {
            cx.log.panic_violation(&format!("{}|huge-update", sigp), &p);
            return;
        }
    };
    cx.log.eval(1);
    cx.log.event("bytes_in_single_update_calls", c.total);
    cx.log.event(&format!("single-call/{}", id.name()), c.total);
    let exp = expected_counter(&id, c.total as u128);
    if ctr != exp {
        cx.log.violation(&format!("{}|counter-after-huge-update", sigp), &format!("after one update() of {} bytes the hooked counter is {:#x}, the format defines {:#x}", c.total, ctr, exp));
    }
    if c.chunked {
        let piece = (64usize << 20) + 13;
        let res = guarded(|| {
            let mut h = id.new();
            let mut bad: Option<(u64, u128, u128)> = None;
            let mut at = 0usize;
            while at < data.len() {
                let n = piece.min(data.len() - at);
                h.update(&data[at..at + n]);
                at += n;
                let (g, e) = (h.counter(), expected_counter(&id, at as u128));
                if g != e && bad.is_none() {
                    bad = Some((at as u64, g, e));
                }
            }
            (h.finalize_box(), bad)
        });
        cx.log.eval(1);
        match res {
            Ok((d2, bad)) => {
                if let Some((at, g, e)) = bad {
                    cx.log.violation(&format!("{}|counter-conservation", sigp), &format!("after really absorbing {} bytes the hooked counter is {:#x}, the format defines {:#x}", at, g, e));
                }
                if d2 != dig {
                    cx.log.violation(&format!("{}|huge-update-digest-differs-from-pieces", sigp), &format!("{} bytes in one update(): {}; the same bytes in 64 MiB pieces: {}", c.total, hex(&dig), hex(&d2)));
                }
            }
            Err(p) => cx.log.panic_violation(&format!("{}|huge-update-pieces", sigp), &p),
        }
    }
    if c.refd {
        let mut m = RefH::new(&id);
        for ch in data.chunks(16 << 20) {
            m.update(ch);
        }
        let e = m.finalize();
        cx.log.eval(1);
        cx.log.event("huge_updates_with_digest_verified", 1);
        if dig != e {
            cx.log.violation(&format!("{}|huge-update-digest", sigp), &format!("digest of {} bytes absorbed by one update() is {} reference {}", c.total, hex(&dig), hex(&e)));
        }
    }
}

/// "For every byte string": the digest monitors (C04-C07) pass their own family one message of
/// more than 2^32 bytes (2^32 bits for BLAKE-256) in a single call; `huge=1` selects the worker.
pub fn run_family_huge(cx: &mut Ctx, fam: Fam) {
    let g4 = 1u64 << 32;
    let c = match fam {
        Fam::Blake => HugeCase { id: h(Fam::Blake, 256), total: (1 << 29) + 4096 + 67, chunked: true, refd: true },
        Fam::Skein => HugeCase { id: h(Fam::Skein, 512), total: g4 + 4096 + 64, chunked: true, refd: false },
        Fam::Jh => HugeCase { id: h(Fam::Jh, 256), total: g4 + 4096 + 65, chunked: true, refd: false },
        Fam::Groestl => HugeCase { id: h(Fam::Groestl, 256), total: g4 + 4096 + 100, chunked: true, refd: false },
    };
    cx.log.announce(&c.desc());
    cx.log.nontrivial();
    cx.log.class(&format!("single-update-{}/{}", if c.total >= g4 { "over-4GiB" } else { "across-first-counter-word" }, c.id.name()));
    exec_huge(cx, &c);
}

fn huge_menu(thorough: bool) -> Vec<HugeCase> {
    let g4 = 1u64 << 32;
    let mut v = vec![
        HugeCase { id: h(Fam::Groestl, 256), total: g4 + 100, chunked: true, refd: false },
        HugeCase { id: h(Fam::Blake, 512), total: g4 + 129, chunked: false, refd: thorough },
        HugeCase { id: h(Fam::Jh, 256), total: g4 + 65, chunked: thorough, refd: false },
        HugeCase { id: h(Fam::Skein, 512), total: g4 + 64, chunked: false, refd: thorough },
        // one call across the *first* word boundary of each counter format
        HugeCase { id: h(Fam::Blake, 256), total: (1 << 29) + 67, chunked: false, refd: true },
        HugeCase { id: h(Fam::Blake, 224), total: (1 << 29) + 4096 + 1, chunked: true, refd: false },
        HugeCase { id: h(Fam::Jh, 224), total: (1 << 29) + 100, chunked: true, refd: false },
        HugeCase { id: h(Fam::Groestl, 224), total: 64 * 65536 + 129, chunked: true, refd: true },
        HugeCase { id: h(Fam::Groestl, 512), total: 128 * 256 + 200, chunked: true, refd: true },
        HugeCase { id: h(Fam::Groestl, 384), total: 128 * 65536 + 5, chunked: true, refd: false },
    ];
    if thorough {
        for (fam, bitss) in [(Fam::Blake, [224u32, 256, 384, 0]), (Fam::Groestl, [224, 384, 512, 0]), (Fam::Jh, [224, 384, 512, 0]), (Fam::Skein, [256, 1024, 0, 0])] {
            for (k, &bits) in bitss.iter().filter(|&&b| b != 0).enumerate() {
                let total = [g4, g4 + 4097, 2 * g4 + 3 * 64 + 1][k % 3];
                let fast_ref = matches!(fam, Fam::Blake | Fam::Skein);
                v.push(HugeCase { id: h(fam, bits), total, chunked: true, refd: fast_ref && k == 0 });
            }
        }
        v.push(HugeCase { id: h(Fam::Groestl, 256), total: 2 * g4 + 64, chunked: true, refd: false });
    }
    v
}

fn h(fam: Fam, bits: u32) -> HashId {
    HashId { fam, bits, out: if fam == Fam::Skein { 64 } else { bits as usize / 8 } }
}

fn stream_menu(thorough: bool) -> Vec<StreamCase> {
    let mi = 1u64 << 20;
    let mut v = vec![
        // Groestl: 2^8 and 2^16 blocks really hashed, digest verified against the byte-matrix model
        StreamCase { id: h(Fam::Groestl, 256), total: 64 * 256 + 70, piece: 1000, check_digest: true },
        StreamCase { id: h(Fam::Groestl, 512), total: 128 * 256 + 200, piece: 4096, check_digest: true },
        StreamCase { id: h(Fam::Groestl, 224), total: 64 * 65536 + 129, piece: 100_003, check_digest: true },
        StreamCase { id: h(Fam::Groestl, 384), total: 128 * 65536 + 5, piece: 65_536, check_digest: true },
        // shorter streams for the others (counter conservation + digest)
        StreamCase { id: h(Fam::Blake, 224), total: 3 * mi + 11, piece: 77_777, check_digest: true },
        StreamCase { id: h(Fam::Blake, 512), total: 5 * mi + 1, piece: 1 << 16, check_digest: true },
        StreamCase { id: h(Fam::Jh, 256), total: mi + 63, piece: 9_999, check_digest: true },
        StreamCase { id: h(Fam::Skein, 256), total: 2 * mi + 31, piece: 50_000, check_digest: true },
        StreamCase { id: h(Fam::Skein, 1024), total: 2 * mi + 128, piece: 1 << 15, check_digest: true },
        // BLAKE-256 across 2^32 bits for real (512 MiB + tail), digest verified
        StreamCase { id: h(Fam::Blake, 256), total: 512 * mi + 4096 + 3, piece: (4 * mi + 13) as usize, check_digest: true },
    ];
    if thorough {
        v.push(StreamCase { id: h(Fam::Blake, 224), total: 512 * mi + 777, piece: (8 * mi) as usize, check_digest: true });
        // JH across 2^32 bits: conservation for all, digest for one (the nibble model is slow)
        v.push(StreamCase { id: h(Fam::Jh, 224), total: 512 * mi + 100, piece: (2 * mi + 1) as usize, check_digest: false });
        v.push(StreamCase { id: h(Fam::Jh, 512), total: 512 * mi + 64, piece: (16 * mi) as usize, check_digest: false });
        v.push(StreamCase { id: h(Fam::Jh, 256), total: 512 * mi + 4097, piece: (4 * mi + 5) as usize, check_digest: true });
        // Skein across 2^32 bytes (4 GiB)
        v.push(StreamCase { id: h(Fam::Skein, 512), total: 4096 * mi + 1000, piece: (8 * mi + 3) as usize, check_digest: true });
        v.push(StreamCase { id: h(Fam::Skein, 256), total: 4096 * mi + 33, piece: (32 * mi) as usize, check_digest: false });
        v.push(StreamCase { id: h(Fam::Groestl, 256), total: 64 * (1 << 20) + 64, piece: (mi + 7) as usize, check_digest: false });
    } else {
        v.push(StreamCase { id: h(Fam::Jh, 384), total: 512 * mi + 100, piece: (2 * mi + 1) as usize, check_digest: false });
    }
    v
}

pub fn run(cx: &mut Ctx) {
    cx.selftest(R::T_ALL);
    let streams = cx.arg("streams").map(|v| v == "1").unwrap_or(true);
    if streams {
        for (i, sc) in stream_menu(cx.thorough).into_iter().enumerate() {
            if i as u64 % cx.nshards != cx.shard {
                continue;
            }
            cx.log.announce(&sc.desc());
            cx.log.nontrivial();
            cx.log.class(&format!("stream/{}/{}", sc.id.name(), if sc.check_digest { "digest-verified" } else { "conservation-only" }));
            exec_stream(cx, &sc);
        }
        // the huge single calls go to the shards from the far end, so that they run beside the streams
        for (i, hc) in huge_menu(cx.thorough).into_iter().enumerate() {
            if (cx.nshards - 1 - (i as u64 % cx.nshards)) != cx.shard {
                continue;
            }
            cx.log.announce(&hc.desc());
            cx.log.nontrivial();
            cx.log.class(&format!("single-update-{}/{}", if hc.total >= 1 << 32 { "over-4GiB" } else { "across-first-counter-word" }, hc.id.name()));
            exec_huge(cx, &hc);
        }
    }
    run_ff(cx, cx.budget);
}

pub fn replay(cx: &mut Ctx, desc: &str) {
    let d = Desc::parse(desc);
    if d.str("k") == "ff" {
        let c = FfCase { id: HashId::parse(d.str("h")), k: d.u64("pre") as usize, c: d.u128("c"), tail: d.u64("tail") as usize, seed: d.u64("seed") };
        cx.log.announce(&c.desc());
        exec_ff(cx, &c);
    } else if d.str("k") == "huge" {
        let c = HugeCase { id: HashId::parse(d.str("h")), total: d.u64("total"), chunked: d.u64("chunked") == 1, refd: d.u64("ref") == 1 };
        cx.log.announce(&c.desc());
        exec_huge(cx, &c);
    } else {
        let c = StreamCase { id: HashId::parse(d.str("h")), total: d.u64("total"), piece: d.u64("piece") as usize, check_digest: d.u64("digest") == 1 };
        cx.log.announce(&c.desc());
        exec_stream(cx, &c);
    }
}
