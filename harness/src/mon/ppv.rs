//! C12 / C13 — ppv-lite86: every operation required by the `Machine` trait bounds, on every
//! machine type of this build, against the scalar lane model (crate::lanes).
//!
//! Values enter through `m.unpack(storage built from [u32;4] words)` and leave through
//! `Into<storage>` -> `split128` -> `[u32;4]`; C13 checks every other construction / read-back
//! path against that channel and against little-endian packing.

use super::Ctx;
use crate::lanes as L;
use crate::log::{guarded, Desc};
use crate::machines::{self, MachFn};
use crate::prng::{hex, mix, fnv, Rng};
use ppv_lite86::*;

fn s128(b: &[u8]) -> vec128_storage {
    let w: [u32; 4] = core::array::from_fn(|i| u32::from_le_bytes([b[4 * i], b[4 * i + 1], b[4 * i + 2], b[4 * i + 3]]));
    w.into()
}
fn b128(s: vec128_storage) -> Vec<u8> {
    let w: [u32; 4] = s.into();
    L::from_u32s(&w)
}
fn s256(b: &[u8]) -> vec256_storage {
    vec256_storage::new128([s128(&b[..16]), s128(&b[16..])])
}
fn b256(s: vec256_storage) -> Vec<u8> {
    let [x, y] = s.split128();
    let mut v = b128(x);
    v.extend(b128(y));
    v
}
fn s512(b: &[u8]) -> vec512_storage {
    vec512_storage::new128([s128(&b[..16]), s128(&b[16..32]), s128(&b[32..48]), s128(&b[48..])])
}
fn b512(s: vec512_storage) -> Vec<u8> {
    let mut v = Vec::with_capacity(64);
    for x in s.split128() {
        v.extend(b128(x));
    }
    v
}

pub struct Scan<'a> {
    pub cx: &'a mut Ctx,
    pub seed: u64,
    pub n: usize,
    pub only: Option<(String, String)>,
    pub backend: &'static str,
    pub triples: u64,
}

fn operand(r: &mut Rng, i: usize, nbytes: usize, salt: u64) -> Vec<u8> {
    let mut v = vec![0u8; nbytes];
    match i {
        0 => {}
        1 => v.iter_mut().for_each(|b| *b = 0xff),
        2 => v.iter_mut().enumerate().for_each(|(k, b)| *b = k as u8),
        3 => v.iter_mut().enumerate().for_each(|(k, b)| *b = 0xf0u8.wrapping_sub(k as u8).wrapping_mul(7)),
        // repeated units: 128-bit lanes (or 32-bit words of a single lane) equal in pairs, as a
        // "broadcast" shortcut would look for: [a,a,b,b] [a,b,c,c] [a,a,b,c] [a,b,a,b] [a,b,b,a] [0,0,a,a]
        4..=9 => {
            let unit = if nbytes > 16 { 16 } else { 4 };
            let n = nbytes / unit;
            let vals: Vec<Vec<u8>> = (0..4).map(|k| if k == 3 { vec![0u8; unit] } else { r.bytes(unit) }).collect();
            let map: [usize; 4] = [[0, 0, 1, 1], [0, 1, 2, 2], [0, 0, 1, 2], [0, 1, 0, 1], [0, 1, 1, 0], [3, 3, 0, 0]][i - 4];
            for k in 0..n {
                v[k * unit..(k + 1) * unit].copy_from_slice(&vals[map[k % 4]]);
            }
        }
        _ => {
            let nbits = nbytes * 8;
            let j = i - 10;
            if j % 3 != 2 {
                // one-hot walk: a seed-dependent start, then consecutive bits (covers all bits when n >= 1.5 * nbits)
                let bit = (salt as usize + j - j / 3) % nbits;
                v[bit / 8] = 1 << (bit % 8);
            } else {
                r.fill(&mut v);
            }
        }
    }
    v
}

impl<'a> Scan<'a> {
    fn want(&self, ty: &str, op: &str) -> bool {
        match &self.only {
            Some((t, o)) => t == ty && o == op,
            None => true,
        }
    }
    fn begin(&mut self, prop: &str, ty: &str, op: &str) -> (Rng, u64, String) {
        let s = mix(&[self.seed, fnv(ty.as_bytes()), fnv(op.as_bytes()), fnv(self.backend.as_bytes())]);
        let d = format!("prop={} m={} ty={} op={} seed={} n={}", prop, self.backend, ty, op, self.seed, self.n);
        self.cx.log.announce(&d);
        self.cx.log.nontrivial();
        self.cx.log.class(&format!("{}/{}/{}/{}", prop, self.backend, ty, op));
        self.triples += 1;
        (Rng::new(s), s, format!("{}|{}|{}|{}|{}", prop, self.backend, crate::api::profile(), ty, op))
    }
    /// Generic check: `f(iteration, rng)` returns Err(detail) on disagreement with the model.
    pub fn check(&mut self, prop: &str, ty: &str, op: &str, n: usize, f: &dyn Fn(usize, &mut Rng, u64) -> Result<(), String>) {
        if !self.want(ty, op) || self.cx.prop != prop {
            return;
        }
        let (mut r, salt, sig) = self.begin(prop, ty, op);
        for i in 0..n {
            self.cx.log.eval(1);
            match guarded(|| f(i, &mut r, salt)) {
                Ok(Ok(())) => {}
                Ok(Err(d)) => {
                    self.cx.log.violation(&sig, &format!("operand #{}: {}", i, d));
                    break;
                }
                Err(p) => {
                    self.cx.log.panic_violation_ctx(&sig, &format!("operand #{}", i), &p);
                    break;
                }
            }
        }
    }
    pub fn unop(&mut self, ty: &str, op: &str, nbytes: usize, real: &dyn Fn(&[u8]) -> Vec<u8>, model: &dyn Fn(&[u8]) -> Vec<u8>) {
        let n = self.n;
        self.check("C12", ty, op, n, &|i, r, salt| {
            let a = operand(r, i, nbytes, salt);
            let (g, e) = (real(&a), model(&a));
            if g != e {
                return Err(format!("{}({}) = {} but the scalar model gives {}", op, hex(&a), hex(&g), hex(&e)));
            }
            Ok(())
        });
    }
    pub fn binop(&mut self, ty: &str, op: &str, nbytes: usize, wbits: usize, real: &dyn Fn(&[u8], &[u8]) -> Vec<u8>, model: &dyn Fn(&[u8], &[u8]) -> Vec<u8>) {
        let n = self.n;
        self.check("C12", ty, op, n, &|i, r, salt| {
            let (a, b) = match i {
                0 => (vec![0u8; nbytes], vec![0u8; nbytes]),
                1 => (vec![0xffu8; nbytes], vec![0xffu8; nbytes]),
                2 => {
                    // MAX + 1 in every word
                    let mut one = vec![0u8; nbytes];
                    one.chunks_mut(wbits / 8).for_each(|w| w[0] = 1);
                    (vec![0xffu8; nbytes], one)
                }
                3 => {
                    // carry out of every byte but the top one: 0x..ffff + 1 with a zero top byte
                    let mut a = vec![0xffu8; nbytes];
                    a.chunks_mut(wbits / 8).for_each(|w| *w.last_mut().unwrap() = 0);
                    let mut one = vec![0u8; nbytes];
                    one.chunks_mut(wbits / 8).for_each(|w| w[0] = 1);
                    (a, one)
                }
                // carry chains: a + (-1), a + (-k), a + (-a), a carry generated below a run of
                // "propagate" limbs (x ^ y all ones), and a carry arriving at an all-ones limb of
                // the other operand. The pattern is laid out over groups of 1, 2 or 4 words by
                // turns (an implementation may add several words in one wider integer), with
                // limbs of 16 / 32 / 64 bits
                4..=66 => {
                    // every pattern x group width x limb size once
                    let (pat, gsel, lsel) = (4 + (i - 4) % 7, (i - 4) / 7 % 3, (i - 4) / 21);
                    let wb = wbits / 8;
                    let gb = (wb * [1usize, 2, 4][gsel]).min(16).min(nbytes);
                    let mut a = r.bytes(nbytes);
                    let mut b = vec![0u8; nbytes];
                    for (x, y) in a.chunks_mut(gb).zip(b.chunks_mut(gb)) {
                        let mut xv = 0u128;
                        for (k, v) in x.iter().enumerate() {
                            xv |= (*v as u128) << (8 * k);
                        }
                        let m = if gb == 16 { u128::MAX } else { (1u128 << (8 * gb)) - 1 };
                        let lb = [16u32, 32, 64][lsel].min(4 * gb as u32);
                        let low = (1u128 << lb) - 1;
                        let yv: u128 = match pat {
                            4 => m,                                               // x - 1
                            5 => (r.below(1000) as u128 + 1).wrapping_neg() & m,  // x - k
                            6 => xv.wrapping_neg() & m,                           // sums to 0, carry through every bit
                            7 => (!xv).wrapping_add(1 + r.below(3) as u128) & m,
                            8 => {
                                // the low limb generates a carry, every limb above it propagates
                                if xv & low == 0 {
                                    xv |= 1;
                                }
                                ((!xv) & !low & m) | ((xv & low).wrapping_neg() & low)
                            }
                            _ => {
                                // low limb of x all ones, y = 1 plus an all-ones limb right above it
                                xv = (xv & !low) | low;
                                let above = if 2 * lb >= 8 * gb as u32 { m & !low } else { ((1u128 << lb) - 1) << lb };
                                if pat == 9 { 1 | above } else { (r.below(1 << 15) as u128 | 1) | above }
                            }
                        };
                        for k in 0..x.len() {
                            x[k] = (xv >> (8 * k)) as u8;
                            y[k] = (yv >> (8 * k)) as u8;
                        }
                    }
                    if salt & 1 == 1 {
                        core::mem::swap(&mut a, &mut b); // the operation must commute
                    }
                    (a, b)
                }
                _ => {
                    let a = operand(r, i - 63, nbytes, salt);
                    let b = if i % 2 == 0 { operand(r, i - 62, nbytes, salt ^ 0x55) } else { r.bytes(nbytes) };
                    (a, b)
                }
            };
            let (g, e) = (real(&a, &b), model(&a, &b));
            if g != e {
                return Err(format!("{}({}, {}) = {} but the scalar model gives {}", op, hex(&a), hex(&b), hex(&g), hex(&e)));
            }
            Ok(())
        });
    }
}

macro_rules! bitops0 {
    ($sc:expr, $ty:expr, $nb:expr, $from:expr, $to:expr) => {{
        $sc.binop($ty, "and", $nb, 32, &|a, b| $to($from(a) & $from(b)), &|a, b| L::and(a, b));
        $sc.binop($ty, "or", $nb, 32, &|a, b| $to($from(a) | $from(b)), &|a, b| L::or(a, b));
        $sc.binop($ty, "xor", $nb, 32, &|a, b| $to($from(a) ^ $from(b)), &|a, b| L::xor(a, b));
        $sc.binop($ty, "xor_assign", $nb, 32, &|a, b| {
            let mut x = $from(a);
            x ^= $from(b);
            $to(x)
        }, &|a, b| L::xor(a, b));
        $sc.binop($ty, "andnot", $nb, 32, &|a, b| $to($from(a).andnot($from(b))), &|a, b| L::andnot(a, b));
        $sc.unop($ty, "not", $nb, &|a| $to(!$from(a)), &|a| L::not(a));
    }};
}
macro_rules! arith {
    ($sc:expr, $ty:expr, $nb:expr, $w:expr, $from:expr, $to:expr) => {{
        $sc.binop($ty, "add", $nb, $w, &|a, b| $to($from(a) + $from(b)), &|a, b| L::add(a, b, $w));
        $sc.binop($ty, "add_assign", $nb, $w, &|a, b| {
            let mut x = $from(a);
            x += $from(b);
            $to(x)
        }, &|a, b| L::add(a, b, $w));
        $sc.unop($ty, "bswap", $nb, &|a| $to($from(a).bswap()), &|a| L::bswap(a, $w));
    }};
}
macro_rules! rot32 {
    ($sc:expr, $ty:expr, $nb:expr, $w:expr, $from:expr, $to:expr) => {{
        $sc.unop($ty, "rotate_each_word_right7", $nb, &|a| $to($from(a).rotate_each_word_right7()), &|a| L::rotr(a, $w, 7));
        $sc.unop($ty, "rotate_each_word_right8", $nb, &|a| $to($from(a).rotate_each_word_right8()), &|a| L::rotr(a, $w, 8));
        $sc.unop($ty, "rotate_each_word_right11", $nb, &|a| $to($from(a).rotate_each_word_right11()), &|a| L::rotr(a, $w, 11));
        $sc.unop($ty, "rotate_each_word_right12", $nb, &|a| $to($from(a).rotate_each_word_right12()), &|a| L::rotr(a, $w, 12));
        $sc.unop($ty, "rotate_each_word_right16", $nb, &|a| $to($from(a).rotate_each_word_right16()), &|a| L::rotr(a, $w, 16));
        $sc.unop($ty, "rotate_each_word_right20", $nb, &|a| $to($from(a).rotate_each_word_right20()), &|a| L::rotr(a, $w, 20));
        $sc.unop($ty, "rotate_each_word_right24", $nb, &|a| $to($from(a).rotate_each_word_right24()), &|a| L::rotr(a, $w, 24));
        $sc.unop($ty, "rotate_each_word_right25", $nb, &|a| $to($from(a).rotate_each_word_right25()), &|a| L::rotr(a, $w, 25));
    }};
}
macro_rules! rot64 {
    ($sc:expr, $ty:expr, $nb:expr, $w:expr, $from:expr, $to:expr) => {{
        $sc.unop($ty, "rotate_each_word_right32", $nb, &|a| $to($from(a).rotate_each_word_right32()), &|a| L::rotr(a, $w, 32));
    }};
}
macro_rules! words4 {
    ($sc:expr, $ty:expr, $nb:expr, $w:expr, $from:expr, $to:expr) => {{
        $sc.unop($ty, "shuffle1230", $nb, &|a| $to($from(a).shuffle1230()), &|a| L::shuffle1230(a, $w));
        $sc.unop($ty, "shuffle2301", $nb, &|a| $to($from(a).shuffle2301()), &|a| L::shuffle2301(a, $w));
        $sc.unop($ty, "shuffle3012", $nb, &|a| $to($from(a).shuffle3012()), &|a| L::shuffle3012(a, $w));
    }};
}
macro_rules! lanewords4 {
    ($sc:expr, $ty:expr, $nb:expr, $from:expr, $to:expr) => {{
        $sc.unop($ty, "shuffle_lane_words1230", $nb, &|a| $to($from(a).shuffle_lane_words1230()), &|a| L::lane_shuffle(a, 1230));
        $sc.unop($ty, "shuffle_lane_words2301", $nb, &|a| $to($from(a).shuffle_lane_words2301()), &|a| L::lane_shuffle(a, 2301));
        $sc.unop($ty, "shuffle_lane_words3012", $nb, &|a| $to($from(a).shuffle_lane_words3012()), &|a| L::lane_shuffle(a, 3012));
    }};
}
macro_rules! swap64 {
    ($sc:expr, $ty:expr, $nb:expr, $from:expr, $to:expr) => {{
        $sc.unop($ty, "swap1", $nb, &|a| $to($from(a).swap1()), &|a| L::swap(a, 1));
        $sc.unop($ty, "swap2", $nb, &|a| $to($from(a).swap2()), &|a| L::swap(a, 2));
        $sc.unop($ty, "swap4", $nb, &|a| $to($from(a).swap4()), &|a| L::swap(a, 4));
        $sc.unop($ty, "swap8", $nb, &|a| $to($from(a).swap8()), &|a| L::swap(a, 8));
        $sc.unop($ty, "swap16", $nb, &|a| $to($from(a).swap16()), &|a| L::swap(a, 16));
        $sc.unop($ty, "swap32", $nb, &|a| $to($from(a).swap32()), &|a| L::swap(a, 32));
        $sc.unop($ty, "swap64", $nb, &|a| $to($from(a).swap64()), &|a| L::swap(a, 64));
    }};
}

/// Values that differ from `a` in a structured way: the same XOR difference in every 32-bit
/// word, in every 64-bit half, in every 128-bit lane, two bits in different words, halves swapped
/// (an equality folded with the wrong operator lets such differences cancel).
fn structured_neighbours(a: &[u8], i: usize) -> Vec<Vec<u8>> {
    let mut v = Vec::new();
    let d = ((i as u32).wrapping_mul(0x9e37_79b9) | 1).to_le_bytes();
    for period in [4usize, 8, 16] {
        let mut o = a.to_vec();
        for (k, b) in o.iter_mut().enumerate() {
            if k % period < 4 {
                *b ^= d[k % period];
            }
        }
        v.push(o);
    }
    let mut o = a.to_vec();
    o[i % a.len()] ^= 1 << (i % 8);
    o[(i + 8) % a.len()] ^= 1 << (i % 8);
    v.push(o);
    let mut o = a.to_vec();
    o.rotate_left(8);
    v.push(o);
    v.retain(|o| &o[..] != a);
    v
}

fn neq(what: &str, got: &[u8], exp: &[u8]) -> Result<(), String> {
    if got != exp {
        Err(format!("{}: got {} expected {}", what, hex(got), hex(exp)))
    } else {
        Ok(())
    }
}

/// insert / extract at every index for a vector whose elements are `eb` bytes wide.
macro_rules! vecn {
    ($sc:expr, $ty:expr, $nb:expr, $n:expr, $from:expr, $to:expr, $efrom:expr, $eto:expr) => {{
        let eb: usize = $nb / $n;
        let cnt = $sc.n.max(4 * $n);
        $sc.check("C13", $ty, "insert", cnt, &|i, r, salt| {
            let a = operand(r, i / $n, $nb, salt);
            let e = r.bytes(eb);
            let idx = i % $n;
            let g = $to($from(&a).insert($efrom(&e), idx as u32));
            neq(&format!("insert(elem, {})", idx), &g, &L::insert(&a, &e, idx))
        });
        $sc.check("C13", $ty, "extract", cnt, &|i, r, salt| {
            let a = if i < 2 * $n { (0..$nb).map(|k| (k as u8).wrapping_mul(3).wrapping_add(1)).collect::<Vec<u8>>() } else { operand(r, i, $nb, salt) };
            let idx = i % $n;
            let g = $eto($from(&a).extract(idx as u32));
            neq(&format!("extract({})", idx), &g, &L::extract(&a, eb, idx))
        });
    }};
}
macro_rules! storebytes {
    ($sc:expr, $ty:expr, $nb:expr, $w:expr, $V:ty, $m:expr, $from:expr, $to:expr) => {{
        let cnt = $sc.n;
        $sc.check("C13", $ty, "read_le", cnt, &|i, r, salt| {
            let a = operand(r, i, $nb, salt);
            let v: $V = $m.read_le(&a);
            neq("read_le", &$to(v), &a)
        });
        $sc.check("C13", $ty, "read_be", cnt, &|i, r, salt| {
            let a = operand(r, i, $nb, salt);
            let v: $V = $m.read_be(&a);
            neq("read_be", &$to(v), &L::bswap(&a, $w))
        });
        $sc.check("C13", $ty, "write_le", cnt, &|i, r, salt| {
            let a = operand(r, i, $nb, salt);
            let mut o = vec![0x77u8; $nb];
            $from(&a).write_le(&mut o);
            neq("write_le", &o, &a)
        });
        $sc.check("C13", $ty, "write_be", cnt, &|i, r, salt| {
            let a = operand(r, i, $nb, salt);
            let mut o = vec![0x77u8; $nb];
            $from(&a).write_be(&mut o);
            neq("write_be", &o, &L::bswap(&a, $w))?;
            // round trip
            let v: $V = $m.read_be(&o);
            neq("read_be(write_be(x))", &$to(v), &a)
        });
    }};
}

#[inline(always)]
pub fn scan<M: Machine>(m: M, sc: &mut Scan) {
    // ------------------------------------------------------------ u32x4
    {
        let from = |b: &[u8]| -> M::u32x4 { m.unpack(s128(b)) };
        let to = |v: M::u32x4| -> Vec<u8> { b128(v.into()) };
        bitops0!(sc, "u32x4", 16, from, to);
        arith!(sc, "u32x4", 16, 32, from, to);
        rot32!(sc, "u32x4", 16, 32, from, to);
        words4!(sc, "u32x4", 16, 32, from, to);
        lanewords4!(sc, "u32x4", 16, from, to);
        vecn!(sc, "u32x4", 16, 4, from, to, |e: &[u8]| L::le_u32s(e)[0], |w: u32| w.to_le_bytes().to_vec());
        storebytes!(sc, "u32x4", 16, 32, M::u32x4, m, from, to);
        let cnt = sc.n;
        sc.check("C13", "u32x4", "lanes", cnt, &|i, r, salt| {
            let a = operand(r, i, 16, salt);
            let w = L::le_u32s(&a);
            let arr = [w[0], w[1], w[2], w[3]];
            let v: M::u32x4 = m.vec(arr);
            neq("vec([u32;4])", &to(v), &a)?;
            neq("from_lanes", &to(<M::u32x4 as MultiLane<[u32; 4]>>::from_lanes(arr)), &a)?;
            neq("to_lanes", &L::from_u32s(&from(&a).to_lanes()), &a)
        });
        sc.check("C13", "u32x4", "storage", cnt, &|i, r, salt| {
            let a = operand(r, i, 16, salt);
            let s: vec128_storage = from(&a).into();
            let q: [u64; 2] = s.into();
            neq("storage as [u64;2]", &L::from_u64s(&q), &a)?;
            // storage equality is equality of the 128 bits; the default storage is all-zero
            let mut o = a.clone();
            o[i % 16] ^= 1 << (i % 8);
            if !(s == s128(&a)) || s == s128(&o) {
                return Err(format!("vec128_storage == is not bytewise equality for {}", hex(&a)));
            }
            for o in structured_neighbours(&a, i) {
                if s == s128(&o) || !(s != s128(&o)) {
                    return Err(format!("vec128_storage: {} == {} although they differ", hex(&a), hex(&o)));
                }
            }
            neq("default storage", &b128(vec128_storage::default()), &[0u8; 16])?;
            storage128_extra(&a, s)
        });
    }
    // ------------------------------------------------------------ u64x2
    {
        let from = |b: &[u8]| -> M::u64x2 { m.unpack(s128(b)) };
        let to = |v: M::u64x2| -> Vec<u8> { b128(v.into()) };
        bitops0!(sc, "u64x2", 16, from, to);
        arith!(sc, "u64x2", 16, 64, from, to);
        rot32!(sc, "u64x2", 16, 64, from, to);
        rot64!(sc, "u64x2", 16, 64, from, to);
        vecn!(sc, "u64x2", 16, 2, from, to, |e: &[u8]| L::le_u64s(e)[0], |w: u64| w.to_le_bytes().to_vec());
        let cnt = sc.n;
        sc.check("C13", "u64x2", "lanes", cnt, &|i, r, salt| {
            let a = operand(r, i, 16, salt);
            let w = L::le_u64s(&a);
            let arr = [w[0], w[1]];
            let v: M::u64x2 = m.vec(arr);
            neq("vec([u64;2])", &to(v), &a)?;
            neq("to_lanes", &L::from_u64s(&from(&a).to_lanes()), &a)
        });
        sc.check("C13", "u64x2", "storage", cnt, &|i, r, salt| {
            let a = operand(r, i, 16, salt);
            let w = L::le_u64s(&a);
            // build the storage from the 64-bit view where the backend offers it, read back as 32-bit words
            let s = storage128_from_u64(&[w[0], w[1]], &a);
            let v: M::u64x2 = m.unpack(s);
            neq("unpack(storage from [u64;2])", &to(v), &a)
        });
    }
    // ------------------------------------------------------------ u128x1
    {
        let from = |b: &[u8]| -> M::u128x1 { m.unpack(s128(b)) };
        let to = |v: M::u128x1| -> Vec<u8> { b128(v.into()) };
        bitops0!(sc, "u128x1", 16, from, to);
        rot32!(sc, "u128x1", 16, 128, from, to);
        rot64!(sc, "u128x1", 16, 128, from, to);
        swap64!(sc, "u128x1", 16, from, to);
        let cnt = sc.n;
        sc.check("C13", "u128x1", "lanes", cnt, &|i, r, salt| {
            let a = operand(r, i, 16, salt);
            let w = L::le_u128s(&a);
            let v: M::u128x1 = m.vec([w[0]]);
            neq("vec([u128;1])", &to(v), &a)?;
            neq("to_lanes", &L::from_u128s(&from(&a).to_lanes()), &a)
        });
    }
    // ------------------------------------------------------------ u32x4x2
    {
        let from = |b: &[u8]| -> M::u32x4x2 { m.unpack(s256(b)) };
        let to = |v: M::u32x4x2| -> Vec<u8> { b256(v.into()) };
        let efrom = |b: &[u8]| -> M::u32x4 { m.unpack(s128(b)) };
        let eto = |v: M::u32x4| -> Vec<u8> { b128(v.into()) };
        bitops0!(sc, "u32x4x2", 32, from, to);
        arith!(sc, "u32x4x2", 32, 32, from, to);
        rot32!(sc, "u32x4x2", 32, 32, from, to);
        vecn!(sc, "u32x4x2", 32, 2, from, to, efrom, eto);
        storebytes!(sc, "u32x4x2", 32, 32, M::u32x4x2, m, from, to);
        let cnt = sc.n;
        sc.check("C13", "u32x4x2", "lanes", cnt, &|i, r, salt| {
            let a = operand(r, i, 32, salt);
            let arr = [efrom(&a[..16]), efrom(&a[16..])];
            let v: M::u32x4x2 = m.vec(arr);
            neq("vec([u32x4;2])", &to(v), &a)?;
            let z: M::u32x4x2 = arr.vzip();
            neq("vzip", &to(z), &a)?;
            let l = from(&a).to_lanes();
            let mut g = eto(l[0]);
            g.extend(eto(l[1]));
            neq("to_lanes", &g, &a)
        });
    }
    // ------------------------------------------------------------ u64x2x2
    {
        let from = |b: &[u8]| -> M::u64x2x2 { m.unpack(s256(b)) };
        let to = |v: M::u64x2x2| -> Vec<u8> { b256(v.into()) };
        let efrom = |b: &[u8]| -> M::u64x2 { m.unpack(s128(b)) };
        let eto = |v: M::u64x2| -> Vec<u8> { b128(v.into()) };
        bitops0!(sc, "u64x2x2", 32, from, to);
        arith!(sc, "u64x2x2", 32, 64, from, to);
        rot32!(sc, "u64x2x2", 32, 64, from, to);
        rot64!(sc, "u64x2x2", 32, 64, from, to);
        vecn!(sc, "u64x2x2", 32, 2, from, to, efrom, eto);
        storebytes!(sc, "u64x2x2", 32, 64, M::u64x2x2, m, from, to);
        let cnt = sc.n;
        sc.check("C13", "u64x2x2", "lanes", cnt, &|i, r, salt| {
            let a = operand(r, i, 32, salt);
            let arr = [efrom(&a[..16]), efrom(&a[16..])];
            let v: M::u64x2x2 = m.vec(arr);
            neq("vec([u64x2;2])", &to(v), &a)?;
            let l = from(&a).to_lanes();
            let mut g = eto(l[0]);
            g.extend(eto(l[1]));
            neq("to_lanes", &g, &a)
        });
    }
    // ------------------------------------------------------------ u64x4
    {
        let from = |b: &[u8]| -> M::u64x4 { m.unpack(s256(b)) };
        let to = |v: M::u64x4| -> Vec<u8> { b256(v.into()) };
        bitops0!(sc, "u64x4", 32, from, to);
        arith!(sc, "u64x4", 32, 64, from, to);
        rot32!(sc, "u64x4", 32, 64, from, to);
        rot64!(sc, "u64x4", 32, 64, from, to);
        words4!(sc, "u64x4", 32, 64, from, to);
        vecn!(sc, "u64x4", 32, 4, from, to, |e: &[u8]| L::le_u64s(e)[0], |w: u64| w.to_le_bytes().to_vec());
        storebytes!(sc, "u64x4", 32, 64, M::u64x4, m, from, to);
        let cnt = sc.n;
        sc.check("C13", "u64x4", "lanes", cnt, &|i, r, salt| {
            let a = operand(r, i, 32, salt);
            let w = L::le_u64s(&a);
            let arr = [w[0], w[1], w[2], w[3]];
            let v: M::u64x4 = m.vec(arr);
            neq("vec([u64;4])", &to(v), &a)?;
            neq("to_lanes", &L::from_u64s(&from(&a).to_lanes()), &a)
        });
        sc.check("C13", "u64x4", "storage", cnt, &|i, r, salt| {
            let a = operand(r, i, 32, salt);
            let w = L::le_u64s(&a);
            let s: vec256_storage = [w[0], w[1], w[2], w[3]].into();
            let v: M::u64x4 = m.unpack(s);
            neq("unpack(storage from [u64;4])", &to(v), &a)?;
            let s2: vec256_storage = from(&a).into();
            let q: [u64; 4] = s2.into();
            neq("storage as [u64;4]", &L::from_u64s(&q), &a)?;
            let mut o = a.clone();
            o[i % 32] ^= 1 << (i % 8);
            if !(s2 == s256(&a)) || s2 == s256(&o) {
                return Err(format!("vec256_storage == is not bytewise equality for {}", hex(&a)));
            }
            for o in structured_neighbours(&a, i) {
                if s2 == s256(&o) || !(s2 != s256(&o)) {
                    return Err(format!("vec256_storage: {} == {} although they differ", hex(&a), hex(&o)));
                }
            }
            neq("default storage", &b256(vec256_storage::default()), &[0u8; 32])?;
            storage256_extra(&a, s2)
        });
    }
    // ------------------------------------------------------------ u128x2
    {
        let from = |b: &[u8]| -> M::u128x2 { m.unpack(s256(b)) };
        let to = |v: M::u128x2| -> Vec<u8> { b256(v.into()) };
        let efrom = |b: &[u8]| -> M::u128x1 { m.unpack(s128(b)) };
        let eto = |v: M::u128x1| -> Vec<u8> { b128(v.into()) };
        bitops0!(sc, "u128x2", 32, from, to);
        rot32!(sc, "u128x2", 32, 128, from, to);
        rot64!(sc, "u128x2", 32, 128, from, to);
        swap64!(sc, "u128x2", 32, from, to);
        vecn!(sc, "u128x2", 32, 2, from, to, efrom, eto);
        let cnt = sc.n;
        sc.check("C13", "u128x2", "lanes", cnt, &|i, r, salt| {
            let a = operand(r, i, 32, salt);
            let arr = [efrom(&a[..16]), efrom(&a[16..])];
            let v: M::u128x2 = m.vec(arr);
            neq("vec([u128x1;2])", &to(v), &a)?;
            let l = from(&a).to_lanes();
            let mut g = eto(l[0]);
            g.extend(eto(l[1]));
            neq("to_lanes", &g, &a)
        });
    }
    // ------------------------------------------------------------ u32x4x4
    {
        let from = |b: &[u8]| -> M::u32x4x4 { m.unpack(s512(b)) };
        let to = |v: M::u32x4x4| -> Vec<u8> { b512(v.into()) };
        let efrom = |b: &[u8]| -> M::u32x4 { m.unpack(s128(b)) };
        let eto = |v: M::u32x4| -> Vec<u8> { b128(v.into()) };
        bitops0!(sc, "u32x4x4", 64, from, to);
        arith!(sc, "u32x4x4", 64, 32, from, to);
        rot32!(sc, "u32x4x4", 64, 32, from, to);
        lanewords4!(sc, "u32x4x4", 64, from, to);
        vecn!(sc, "u32x4x4", 64, 4, from, to, efrom, eto);
        storebytes!(sc, "u32x4x4", 64, 32, M::u32x4x4, m, from, to);
        let cnt = sc.n;
        sc.check("C13", "u32x4x4", "lanes", cnt, &|i, r, salt| {
            let a = operand(r, i, 64, salt);
            let arr = [efrom(&a[..16]), efrom(&a[16..32]), efrom(&a[32..48]), efrom(&a[48..])];
            let v: M::u32x4x4 = m.vec(arr);
            neq("vec([u32x4;4])", &to(v), &a)?;
            let g: Vec<u8> = from(&a).to_lanes().iter().flat_map(|l| eto(*l)).collect();
            neq("to_lanes", &g, &a)
        });
        sc.check("C13", "u32x4x4", "storage", cnt, &|i, r, salt| {
            let a = operand(r, i, 64, salt);
            let s: vec512_storage = from(&a).into();
            neq("Into<vec512_storage> then split128", &b512(s), &a)?;
            let mut o = a.clone();
            o[i % 64] ^= 1 << (i % 8);
            if !(s == s512(&a)) || s == s512(&o) {
                return Err(format!("vec512_storage == is not bytewise equality for {}", hex(&a)));
            }
            for o in structured_neighbours(&a, i) {
                if s == s512(&o) || !(s != s512(&o)) {
                    return Err(format!("vec512_storage: {} == {} although they differ", hex(&a), hex(&o)));
                }
            }
            neq("default storage", &b512(vec512_storage::default()), &[0u8; 64])?;
            storage512_extra(&a, s)
        });
        sc.check("C13", "u32x4x4", "to_scalars", cnt, &|i, r, salt| {
            let a = operand(r, i, 64, salt);
            neq("to_scalars", &L::from_u32s(&from(&a).to_scalars()), &a)
        });
        sc.check("C13", "u32x4x4", "transpose4", cnt, &|i, r, salt| {
            let rows: Vec<Vec<u8>> = (0..4)
                .map(|k| if i == 0 { (0..64).map(|j| (k * 64 + j) as u8).collect() } else { operand(r, i + k, 64, salt.rotate_left(k as u32 * 7)) })
                .collect();
            let (w, x, y, z) = <M::u32x4x4 as Vec4Ext<M::u32x4>>::transpose4(from(&rows[0]), from(&rows[1]), from(&rows[2]), from(&rows[3]));
            let e = L::transpose4(&rows[0], &rows[1], &rows[2], &rows[3]);
            neq("transpose4 row 0", &to(w), &e[0])?;
            neq("transpose4 row 1", &to(x), &e[1])?;
            neq("transpose4 row 2", &to(y), &e[2])?;
            neq("transpose4 row 3", &to(z), &e[3])
        });
    }
    // ------------------------------------------------------------ u64x2x4
    {
        let from = |b: &[u8]| -> M::u64x2x4 { m.unpack(s512(b)) };
        let to = |v: M::u64x2x4| -> Vec<u8> { b512(v.into()) };
        let efrom = |b: &[u8]| -> M::u64x2 { m.unpack(s128(b)) };
        let eto = |v: M::u64x2| -> Vec<u8> { b128(v.into()) };
        bitops0!(sc, "u64x2x4", 64, from, to);
        arith!(sc, "u64x2x4", 64, 64, from, to);
        rot32!(sc, "u64x2x4", 64, 64, from, to);
        rot64!(sc, "u64x2x4", 64, 64, from, to);
        vecn!(sc, "u64x2x4", 64, 4, from, to, efrom, eto);
        let cnt = sc.n;
        sc.check("C13", "u64x2x4", "lanes", cnt, &|i, r, salt| {
            let a = operand(r, i, 64, salt);
            let arr = [efrom(&a[..16]), efrom(&a[16..32]), efrom(&a[32..48]), efrom(&a[48..])];
            let v: M::u64x2x4 = m.vec(arr);
            neq("vec([u64x2;4])", &to(v), &a)?;
            let g: Vec<u8> = from(&a).to_lanes().iter().flat_map(|l| eto(*l)).collect();
            neq("to_lanes", &g, &a)
        });
    }
    // ------------------------------------------------------------ u128x4
    {
        let from = |b: &[u8]| -> M::u128x4 { m.unpack(s512(b)) };
        let to = |v: M::u128x4| -> Vec<u8> { b512(v.into()) };
        let efrom = |b: &[u8]| -> M::u128x1 { m.unpack(s128(b)) };
        let eto = |v: M::u128x1| -> Vec<u8> { b128(v.into()) };
        bitops0!(sc, "u128x4", 64, from, to);
        rot32!(sc, "u128x4", 64, 128, from, to);
        rot64!(sc, "u128x4", 64, 128, from, to);
        swap64!(sc, "u128x4", 64, from, to);
        vecn!(sc, "u128x4", 64, 4, from, to, efrom, eto);
        let cnt = sc.n;
        sc.check("C13", "u128x4", "lanes", cnt, &|i, r, salt| {
            let a = operand(r, i, 64, salt);
            let arr = [efrom(&a[..16]), efrom(&a[16..32]), efrom(&a[32..48]), efrom(&a[48..])];
            let v: M::u128x4 = m.vec(arr);
            neq("vec([u128x1;4])", &to(v), &a)?;
            let g: Vec<u8> = from(&a).to_lanes().iter().flat_map(|l| eto(*l)).collect();
            neq("to_lanes", &g, &a)
        });
    }
}

// storage views that only the x86-64 storage unions offer
#[cfg(all(not(feature = "portable"), not(miri)))]
fn storage128_extra(a: &[u8], s: vec128_storage) -> Result<(), String> {
    let o: [u128; 1] = s.into();
    neq("storage as [u128;1]", &L::from_u128s(&o), a)?;
    let r: &[u32; 4] = (&s).into();
    neq("&storage as &[u32;4]", &L::from_u32s(r), a)
}
#[cfg(all(not(feature = "portable"), not(miri)))]
fn storage512_extra(a: &[u8], s: vec512_storage) -> Result<(), String> {
    let d: [u32; 16] = s.into();
    neq("storage as [u32;16]", &L::from_u32s(&d), a)?;
    let q: [u64; 8] = s.into();
    neq("storage as [u64;8]", &L::from_u64s(&q), a)?;
    let o: [u128; 4] = s.into();
    neq("storage as [u128;4]", &L::from_u128s(&o), a)
}
#[cfg(any(feature = "portable", miri))]
fn storage512_extra(_a: &[u8], _s: vec512_storage) -> Result<(), String> {
    Ok(())
}
#[cfg(any(feature = "portable", miri))]
fn storage128_extra(_a: &[u8], _s: vec128_storage) -> Result<(), String> {
    Ok(())
}
#[cfg(all(not(feature = "portable"), not(miri)))]
fn storage256_extra(a: &[u8], s: vec256_storage) -> Result<(), String> {
    let d: [u32; 8] = s.into();
    neq("storage as [u32;8]", &L::from_u32s(&d), a)?;
    let o: [u128; 2] = s.into();
    neq("storage as [u128;2]", &L::from_u128s(&o), a)
}
#[cfg(any(feature = "portable", miri))]
fn storage256_extra(_a: &[u8], _s: vec256_storage) -> Result<(), String> {
    Ok(())
}
#[cfg(any(feature = "portable", miri))]
fn storage128_from_u64(w: &[u64; 2], _a: &[u8]) -> vec128_storage {
    (*w).into()
}
#[cfg(all(not(feature = "portable"), not(miri)))]
fn storage128_from_u64(_w: &[u64; 2], a: &[u8]) -> vec128_storage {
    // the x86 union has no From<[u64;2]>; use the 32-bit constructor
    s128(a)
}

/// Operations that only the portable backend exposes on the 128-bit-word types (its `u128x1`
/// family also implements `ArithOps` and `BSwap`): "operations a backend exposes" (C12).
#[cfg(any(feature = "portable", miri))]
fn generic_extras(sc: &mut Scan) {
    use ppv_lite86::generic::GenericMachine as G;
    let m = unsafe { G::instance() };
    {
        let from = |b: &[u8]| -> <G as Machine>::u128x1 { m.unpack(s128(b)) };
        let to = |v: <G as Machine>::u128x1| -> Vec<u8> { b128(v.into()) };
        arith!(sc, "u128x1", 16, 128, from, to);
    }
    {
        let from = |b: &[u8]| -> <G as Machine>::u128x2 { m.unpack(s256(b)) };
        let to = |v: <G as Machine>::u128x2| -> Vec<u8> { b256(v.into()) };
        arith!(sc, "u128x2", 32, 128, from, to);
    }
    {
        let from = |b: &[u8]| -> <G as Machine>::u128x4 { m.unpack(s512(b)) };
        let to = |v: <G as Machine>::u128x4| -> Vec<u8> { b512(v.into()) };
        arith!(sc, "u128x4", 64, 128, from, to);
    }
}

struct Runner<'a, 'b> {
    sc: &'a mut Scan<'b>,
}
impl<'a, 'b> MachFn for Runner<'a, 'b> {
    #[inline(always)]
    fn call<M: Machine>(&mut self, name: &'static str, m: M) {
        self.sc.backend = name;
        scan(m, self.sc);
        #[cfg(any(feature = "portable", miri))]
        generic_extras(self.sc);
    }
}

/// The direct vector-to-vector view conversions of the x86-64 types (`u128xN` into the 32- and
/// 64-bit word views): the bits must not move, i.e. the storage of the result equals the storage
/// of the source (little-endian word packing).
#[cfg(all(not(feature = "portable"), not(miri)))]
struct Views<'a, 'b> {
    sc: &'a mut Scan<'b>,
}
#[cfg(all(not(feature = "portable"), not(miri)))]
impl<'a, 'b> machines::ViewFn for Views<'a, 'b> {
    #[inline(always)]
    fn call<M: Machine>(&mut self, name: &'static str, m: M)
    where
        M::u128x1: Into<M::u32x4> + Into<M::u64x2>,
        M::u128x2: Into<M::u32x4x2> + Into<M::u64x2x2>,
        M::u128x4: Into<M::u32x4x4> + Into<M::u64x2x4>,
    {
        self.sc.backend = name;
        let n = self.sc.n;
        let sc = &mut *self.sc;
        sc.check("C13", "u128x1", "into-u32x4", n, &|i, r, salt| {
            let a = operand(r, i, 16, salt);
            let v: M::u128x1 = m.unpack(s128(&a));
            let w: M::u32x4 = v.into();
            neq("u128x1 -> u32x4", &b128(w.into()), &a)
        });
        sc.check("C13", "u128x1", "into-u64x2", n, &|i, r, salt| {
            let a = operand(r, i, 16, salt);
            let v: M::u128x1 = m.unpack(s128(&a));
            let w: M::u64x2 = v.into();
            neq("u128x1 -> u64x2", &b128(w.into()), &a)
        });
        sc.check("C13", "u128x2", "into-u32x4x2", n, &|i, r, salt| {
            let a = operand(r, i, 32, salt);
            let v: M::u128x2 = m.unpack(s256(&a));
            let w: M::u32x4x2 = v.into();
            neq("u128x2 -> u32x4x2", &b256(w.into()), &a)
        });
        sc.check("C13", "u128x2", "into-u64x2x2", n, &|i, r, salt| {
            let a = operand(r, i, 32, salt);
            let v: M::u128x2 = m.unpack(s256(&a));
            let w: M::u64x2x2 = v.into();
            neq("u128x2 -> u64x2x2", &b256(w.into()), &a)
        });
        sc.check("C13", "u128x4", "into-u32x4x4", n, &|i, r, salt| {
            let a = operand(r, i, 64, salt);
            let v: M::u128x4 = m.unpack(s512(&a));
            let w: M::u32x4x4 = v.into();
            neq("u128x4 -> u32x4x4", &b512(w.into()), &a)
        });
        sc.check("C13", "u128x4", "into-u64x2x4", n, &|i, r, salt| {
            let a = operand(r, i, 64, salt);
            let v: M::u128x4 = m.unpack(s512(&a));
            let w: M::u64x2x4 = v.into();
            neq("u128x4 -> u64x2x4", &b512(w.into()), &a)
        });
    }
}

pub fn run(cx: &mut Ctx) {
    let n = cx.budget as usize;
    let seed = mix(&[cx.seed, cx.shard]);
    let names: Vec<&'static str> = machines::NAMES.iter().copied().collect();
    let mut total = 0;
    for (k, name) in names.iter().enumerate() {
        // machines are spread over the shards; every shard still uses its own operand seed
        if cx.nshards > 1 && (k as u64) % cx.nshards.min(names.len() as u64) != cx.shard % cx.nshards.min(names.len() as u64) {
            continue;
        }
        let mut sc = Scan { cx, seed, n, only: None, backend: "", triples: 0 };
        machines::run(name, &mut Runner { sc: &mut sc });
        #[cfg(all(not(feature = "portable"), not(miri)))]
        machines::run_views(name, &mut Views { sc: &mut sc });
        total += sc.triples;
    }
    cx.log.event("triples_exercised", total);
}

pub fn replay(cx: &mut Ctx, desc: &str) {
    let d = Desc::parse(desc);
    let mut sc = Scan {
        cx,
        seed: d.u64("seed"),
        n: d.u64("n") as usize,
        only: Some((d.str("ty").to_string(), d.str("op").to_string())),
        backend: "",
        triples: 0,
    };
    #[cfg(all(not(feature = "portable"), not(miri)))]
    if d.str("op").starts_with("into-") {
        machines::run_views(d.str("m"), &mut Views { sc: &mut sc });
        return;
    }
    machines::run(d.str("m"), &mut Runner { sc: &mut sc });
}
