//! C08 — incremental hashing is invariant under chunking, cloning and reset.
//! History + shadow model: every live instance carries the bytes fed to it since its last
//! (re)start; at every finalize the digest must equal the reference digest of those bytes and the
//! implementation's own one-shot digest.

use super::{first_diff, Ctx};
use crate::api::{self, DynHash, Fam, HashId};
use crate::log::{guarded, Desc};
use crate::prng::{hex, Rng};

#[derive(Clone, Debug)]
pub enum Op {
    Update(usize, usize), // instance, piece length
    Clone(usize),
    CloneFrom(usize, usize), // destination (a live instance), source
    Reset(usize),
    FinalizeReset(usize),
    Finalize(usize), // consumes the instance
}

fn ops_to_string(ops: &[Op]) -> String {
    ops.iter()
        .map(|o| match o {
            Op::Update(i, n) => format!("u{}.{}", i, n),
            Op::Clone(i) => format!("c{}", i),
            Op::CloneFrom(d, s) => format!("x{}.{}", d, s),
            Op::Reset(i) => format!("r{}", i),
            Op::FinalizeReset(i) => format!("f{}", i),
            Op::Finalize(i) => format!("F{}", i),
        })
        .collect::<Vec<_>>()
        .join(",")
}
fn ops_from_string(s: &str) -> Vec<Op> {
    s.split(',')
        .filter(|t| !t.is_empty())
        .map(|t| {
            let (k, r) = t.split_at(1);
            match k {
                "u" => {
                    let (a, b) = r.split_once('.').unwrap();
                    Op::Update(a.parse().unwrap(), b.parse().unwrap())
                }
                "c" => Op::Clone(r.parse().unwrap()),
                "x" => {
                    let (a, b) = r.split_once('.').unwrap();
                    Op::CloneFrom(a.parse().unwrap(), b.parse().unwrap())
                }
                "r" => Op::Reset(r.parse().unwrap()),
                "f" => Op::FinalizeReset(r.parse().unwrap()),
                "F" => Op::Finalize(r.parse().unwrap()),
                _ => panic!("bad op {}", t),
            }
        })
        .collect()
}

pub struct Hist {
    pub id: HashId,
    pub fb: u8,
    pub dseed: u64,
    pub ops: Vec<Op>,
    /// 0 = the history starts a fresh message; otherwise the length counter of the first
    /// instance (and of its reference) is first set to this value through hook H2: the history
    /// then takes place "late" in a very long message, across a counter-word boundary
    pub late: u128,
}
impl Hist {
    pub fn desc(&self) -> String {
        format!("h={} fb={} dseed={} late={} ops={}", self.id.name(), self.fb, self.dseed, self.late, ops_to_string(&self.ops))
    }
}

fn fill_class(fill: usize, bs: usize) -> &'static str {
    if fill == 0 {
        "fill=0"
    } else if fill == bs - 1 {
        "fill=bs-1"
    } else if fill == bs {
        "fill=bs(pending)"
    } else {
        "fill=mid"
    }
}
fn piece_class(n: usize, fill: usize, bs: usize) -> &'static str {
    if n == 0 {
        "empty"
    } else if fill + n < bs {
        "stays-in-buffer"
    } else if fill + n == bs {
        "fills-exactly"
    } else if n >= 2 * bs {
        "multi-block"
    } else {
        "crosses-boundary"
    }
}

fn check_digest(cx: &mut Ctx, sigp: &str, what: &str, id: &HashId, got: &[u8], shadow: &[u8], opi: usize, late: Option<&super::counters::RefH>) -> bool {
    if let Some(m) = late {
        // late history: the oracle is the incremental reference carrying the same counter
        let exp = m.finalize();
        cx.log.eval(1);
        if got != &exp[..] {
            cx.log.violation(
                &format!("{}|{}-differs-from-reference-late", sigp, what),
                &format!("op #{}: digest late in a long message ({} bytes fed in this history) is {} but the reference gives {}", opi, shadow.len(), hex(got), hex(&exp)),
            );
            return false;
        }
        return true;
    }
    let exp = id.reference(shadow);
    cx.log.eval(1);
    if let Some(k) = first_diff(got, &exp) {
        cx.log.violation(
            &format!("{}|{}-differs-from-reference", sigp, what),
            &format!("op #{}: digest of the {} bytes fed since the last restart is {} but the reference gives {} (byte {})", opi, shadow.len(), hex(got), hex(&exp), k),
        );
        return false;
    }
    match guarded(|| id.oneshot(shadow)) {
        Ok(one) => {
            if one != got {
                cx.log.violation(&format!("{}|{}-differs-from-oneshot", sigp, what), &format!("op #{}: incremental {} one-shot {}", opi, hex(got), hex(&one)));
                return false;
            }
        }
        Err(p) => {
            cx.log.panic_violation(&format!("{}|op=oneshot", sigp), &p);
            return false;
        }
    }
    true
}

pub fn exec(cx: &mut Ctx, h: &Hist) {
    let id = h.id;
    let bs = id.block_size();
    let sigp = format!("{}|{}|{}", cx.prop, id.name(), api::profile());
    let mut drng = Rng::new(h.dseed);
    api::force_backend(h.fb);
    use super::counters::RefH;
    let mut inst: Vec<Option<(Box<dyn DynHash>, Vec<u8>, Option<RefH>)>> = Vec::new();
    match guarded(|| {
        let mut x = id.new();
        if h.late != 0 {
            x.set_counter(h.late);
        }
        x
    }) {
        Ok(x) => {
            let late = if h.late != 0 {
                let mut m = RefH::new(&id);
                m.set_counter(h.late);
                cx.log.class(&format!("{}/late-history", id.fam_name()));
                Some(m)
            } else {
                None
            };
            inst.push(Some((x, Vec::new(), late)))
        }
        Err(p) => {
            cx.log.panic_violation(&format!("{}|op=new", sigp), &p);
            api::force_backend(0);
            return;
        }
    }
    for (opi, op) in h.ops.iter().enumerate() {
        let idx = match op {
            Op::Update(i, _) | Op::Clone(i) | Op::CloneFrom(i, _) | Op::Reset(i) | Op::FinalizeReset(i) | Op::Finalize(i) => *i,
        };
        if idx >= inst.len() || inst[idx].is_none() {
            continue;
        }
        let fill = {
            let sh = &inst[idx].as_ref().unwrap().1;
            // Skein holds a full last block back; the others compress it at once
            if id.fam == Fam::Skein && !sh.is_empty() && sh.len() % bs == 0 {
                bs
            } else {
                sh.len() % bs
            }
        };
        match op {
            Op::Update(_, n) => {
                // data source of the history (from its data seed): random (5 in 8), all zero,
                // a repeating 64-byte record whose last byte counts, or all 0x80.. bytes
                let mut piece = drng.bytes(*n);
                match h.dseed % 8 {
                    5 => piece.iter_mut().for_each(|b| *b = 0),
                    6 => {
                        let at = inst[idx].as_ref().unwrap().1.len();
                        for (i, b) in piece.iter_mut().enumerate() {
                            let p = at + i;
                            *b = if p % 64 == 63 { (p / 64) as u8 } else { (h.dseed >> (8 * (p % 8))) as u8 ^ (p % 64) as u8 };
                        }
                    }
                    7 => piece.iter_mut().for_each(|b| *b |= 0x80),
                    _ => {}
                }
                cx.log.class(&format!("{}/update/{}/{}", id.fam_name(), fill_class(fill, bs), piece_class(*n, fill % bs, bs)));
                if (*n + opi) % 4 == 3 {
                    // by-value Update::chain
                    let (hh, mut sh, mut late) = inst[idx].take().unwrap();
                    let pc = piece.clone();
                    match guarded(move || hh.chain_box(&pc)) {
                        Ok(nh) => {
                            sh.extend_from_slice(&piece);
                            if let Some(m) = late.as_mut() {
                                m.update(&piece);
                            }
                            inst[idx] = Some((nh, sh, late));
                        }
                        Err(p) => {
                            cx.log.panic_violation_ctx(&format!("{}|op=chain", sigp), &format!("op #{}", opi), &p);
                            break;
                        }
                    }
                    cx.log.event("chain_calls", 1);
                    cx.log.event("bytes_fed", *n as u64);
                    continue;
                }
                let e = inst[idx].as_mut().unwrap();
                if let Err(p) = guarded(|| e.0.update(&piece)) {
                    cx.log.panic_violation_ctx(&format!("{}|op=update", sigp), &format!("op #{}", opi), &p);
                    break;
                }
                e.1.extend_from_slice(&piece);
                if let Some(m) = e.2.as_mut() {
                    m.update(&piece);
                }
                cx.log.event("bytes_fed", *n as u64);
            }
            Op::Clone(_) => {
                cx.log.class(&format!("{}/clone/{}", id.fam_name(), fill_class(fill, bs)));
                let e = inst[idx].as_ref().unwrap();
                match guarded(|| e.0.box_clone()) {
                    Ok(c) => {
                        let sh = e.1.clone();
                        let late = e.2.clone();
                        inst.push(Some((c, sh, late)));
                    }
                    Err(p) => {
                        cx.log.panic_violation(&format!("{}|op=clone", sigp), &p);
                        break;
                    }
                }
            }
            Op::CloneFrom(_, src) => {
                // Clone::clone_from onto a live instance: whatever the destination held is gone
                if *src == idx || *src >= inst.len() || inst[*src].is_none() {
                    continue;
                }
                let sfill = inst[*src].as_ref().unwrap().1.len() % bs;
                cx.log.class(&format!("{}/clone_from/dst-{}/src-{}", id.fam_name(), fill_class(fill, bs), fill_class(sfill, bs)));
                cx.log.event("clone_from_calls", 1);
                let (mut dh, _, _) = inst[idx].take().unwrap();
                let (r, sh, late) = {
                    let s = inst[*src].as_ref().unwrap();
                    (guarded(|| dh.clone_from_dyn(&*s.0)), s.1.clone(), s.2.clone())
                };
                if let Err(p) = r {
                    cx.log.panic_violation(&format!("{}|op=clone_from", sigp), &p);
                    break;
                }
                inst[idx] = Some((dh, sh, late));
            }
            Op::Reset(_) => {
                cx.log.class(&format!("{}/reset/{}", id.fam_name(), fill_class(fill, bs)));
                let e = inst[idx].as_mut().unwrap();
                if let Err(p) = guarded(|| e.0.reset()) {
                    cx.log.panic_violation(&format!("{}|op=reset", sigp), &p);
                    break;
                }
                e.1.clear();
                e.2 = None; // a reset instance starts a fresh message
            }
            Op::FinalizeReset(_) => {
                cx.log.class(&format!("{}/finalize_reset/{}", id.fam_name(), fill_class(fill, bs)));
                let e = inst[idx].as_mut().unwrap();
                // three routes to "finalize and start over": FixedOutput::finalize_fixed_reset (in
                // place), DynDigest::finalize_reset (object-safe trait), Digest::finalize_reset (clone)
                let flavour = opi % 3;
                cx.log.event(["finalize_fixed_reset", "dyn_finalize_reset", "digest_finalize_reset"][flavour], 1);
                let got = match guarded(|| match flavour {
                    0 => e.0.finalize_reset(),
                    1 => e.0.dyn_finalize_reset(),
                    _ => e.0.digest_finalize_reset(),
                }) {
                    Ok(g) => g,
                    Err(p) => {
                        cx.log.panic_violation(&format!("{}|op=finalize_reset", sigp), &p);
                        break;
                    }
                };
                let sh = std::mem::take(&mut e.1);
                let late = e.2.take();
                if !check_digest(cx, &sigp, "finalize_reset", &id, &got, &sh, opi, late.as_ref()) {
                    break;
                }
            }
            Op::Finalize(_) => {
                cx.log.class(&format!("{}/finalize/{}", id.fam_name(), fill_class(fill, bs)));
                let (hh, sh, late) = inst[idx].take().unwrap();
                let got = match guarded(move || hh.finalize_box()) {
                    Ok(g) => g,
                    Err(p) => {
                        cx.log.panic_violation(&format!("{}|op=finalize", sigp), &p);
                        break;
                    }
                };
                if !check_digest(cx, &sigp, "finalize", &id, &got, &sh, opi, late.as_ref()) {
                    break;
                }
            }
        }
    }
    // every instance still alive is finalized at the end, so no state goes unobserved
    for k in 0..inst.len() {
        if let Some((hh, sh, late)) = inst[k].take() {
            match guarded(move || hh.finalize_box()) {
                Ok(g) => {
                    if !check_digest(cx, &sigp, "finalize", &id, &g, &sh, h.ops.len(), late.as_ref()) {
                        break;
                    }
                }
                Err(p) => {
                    cx.log.panic_violation(&format!("{}|op=finalize", sigp), &p);
                    break;
                }
            }
        }
    }
    api::force_backend(0);
}

fn gen_ops(r: &mut Rng, bs: usize, maxops: usize) -> Vec<Op> {
    let n = 2 + r.below(maxops as u64 - 1) as usize;
    let mut ops = Vec::new();
    // generator-side bookkeeping: shadow lengths of live instances (None = consumed)
    let mut lens: Vec<Option<usize>> = vec![Some(0)];
    let mut total = 0usize;
    let mut pages = 0;
    while ops.len() < n {
        let live: Vec<usize> = (0..lens.len()).filter(|&i| lens[i].is_some()).collect();
        if live.is_empty() {
            break;
        }
        let i = *r.pick(&live);
        let cur = lens[i].unwrap();
        match r.below(100) {
            // now and then whole pages from a buffer of their own (allocated, hence 16-byte
            // aligned), whatever the instance holds at that moment (a header, a partial block)
            0..=1 if !cfg!(miri) && pages < 2 => {
                pages += 1;
                let len = [4096usize, 8192, 12288, 65536][r.below(4) as usize];
                lens[i] = Some(cur + len);
                ops.push(Op::Update(i, len));
            }
            0..=59 => {
                let fill = cur % bs;
                let len = match r.below(14) {
                    0 => 0,
                    1 => 1,
                    2 => bs - 1,
                    3 => bs,
                    4 => bs + 1,
                    5 => 2 * bs - 1,
                    6 => 2 * bs,
                    7 => 2 * bs + 1,
                    8 => bs * r.range(1, 5) as usize,
                    9 | 10 => bs - fill,           // fill the buffer exactly
                    11 => (bs - fill) + bs * r.range(1, 3) as usize, // cross from a partial buffer, land on a boundary
                    _ => r.below(5 * bs as u64) as usize,
                };
                if total + len > 24 * bs {
                    ops.push(Op::Update(i, 0));
                    continue;
                }
                total += len;
                lens[i] = Some(cur + len);
                ops.push(Op::Update(i, len));
            }
            60..=71 => {
                if live.len() >= 2 && r.below(3) == 0 {
                    let others: Vec<usize> = live.iter().copied().filter(|&j| j != i).collect();
                    let j = *r.pick(&others);
                    lens[i] = lens[j];
                    ops.push(Op::CloneFrom(i, j));
                } else if live.len() < 4 {
                    lens.push(Some(cur));
                    ops.push(Op::Clone(i));
                }
            }
            72..=79 => {
                lens[i] = Some(0);
                ops.push(Op::Reset(i));
            }
            80..=92 => {
                lens[i] = Some(0);
                ops.push(Op::FinalizeReset(i));
            }
            _ => {
                lens[i] = None;
                ops.push(Op::Finalize(i));
            }
        }
    }
    ops
}

pub fn run(cx: &mut Ctx) {
    cx.selftest(crate::refmodel::T_BLAKE | crate::refmodel::T_GROESTL | crate::refmodel::T_JH | crate::refmodel::T_SKEIN);
    let mut rng = cx.rng("C08");
    let levels = api::backend_levels();
    let maxops = if cfg!(miri) { 6 } else { 24 };
    for i in 0..cx.budget {
        let sk = *rng.pick(&[32usize, 64, 100]);
        let menu = api::hashes15(sk);
        let id = menu[((i + cx.shard) % 15) as usize];
        let fb = if matches!(id.fam, Fam::Blake | Fam::Jh) && rng.below(3) == 0 { *rng.pick(levels) } else { 0 };
        let ops = gen_ops(&mut rng, id.block_size(), maxops);
        // one history in six takes place late in a very long message (not under Miri: slow models)
        let late = if !cfg!(miri) && rng.below(6) == 0 { super::counters::late_counter(&mut rng, &id) } else { 0 };
        let h = Hist { id, fb, dseed: rng.u64(), ops, late };
        cx.log.announce(&h.desc());
        let special = h.ops.iter().any(|o| matches!(o, Op::Clone(_) | Op::CloneFrom(..) | Op::Reset(_) | Op::FinalizeReset(_) | Op::Update(_, 0)));
        if h.ops.len() >= 3 && special {
            cx.log.nontrivial();
        }
        cx.log.class(&format!("type={}", id.name()));
        cx.log.class(&format!("config={}-{}/{}", api::build_kind(), api::profile(), api::BACKEND_NAMES[fb as usize]));
        let clones = h.ops.iter().filter(|o| matches!(o, Op::Clone(_))).count();
        cx.log.class(&format!("clones={}", clones));
        exec(cx, &h);
    }
}

pub fn replay(cx: &mut Ctx, desc: &str) {
    let d = Desc::parse(desc);
    let h = Hist { id: HashId::parse(d.str("h")), fb: d.u64("fb") as u8, dseed: d.u64("dseed"), ops: ops_from_string(d.get("ops").unwrap_or("")), late: d.get("late").map(crate::log::parse_u128).unwrap_or(0) };
    cx.log.announce(&h.desc());
    exec(cx, &h);
}
