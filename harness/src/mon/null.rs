//! C19 — ppv-null emulated vectors: every public method of u32x4, u64x4, u128x1, u128x2 and
//! u32x4x4 against plain wrapping scalar arithmetic per lane; no panic for in-domain operands
//! (rotation amounts 1..bits-1, valid lane indices, slices of the exact length), in debug and
//! release builds.

use super::Ctx;
use crate::log::{guarded, Desc};
use crate::prng::{fnv, mix, Rng};
use crypto_simd::{RotateWordsRight, SplatRotateRight};
use ppv_null::{u128x1, u128x2, u32x4, u32x4x4, u64x4};

struct Sc<'a> {
    cx: &'a mut Ctx,
    seed: u64,
    n: usize,
    only: Option<(String, String)>,
}

impl<'a> Sc<'a> {
    fn check(&mut self, ty: &str, op: &str, f: &dyn Fn(usize, &mut Rng) -> Result<(), String>) {
        if let Some((t, o)) = &self.only {
            if t != ty || o != op {
                return;
            }
        }
        let d = format!("ty={} op={} seed={} n={}", ty, op, self.seed, self.n);
        self.cx.log.announce(&d);
        self.cx.log.nontrivial();
        self.cx.log.class(&format!("{}/{}/{}", ty, op, crate::api::profile()));
        let sig = format!("C19|{}|{}|{}", crate::api::profile(), ty, op);
        let mut r = Rng::new(mix(&[self.seed, fnv(ty.as_bytes()), fnv(op.as_bytes())]));
        for i in 0..self.n {
            self.cx.log.eval(1);
            match guarded(|| f(i, &mut r)) {
                Ok(Ok(())) => {}
                Ok(Err(d)) => {
                    self.cx.log.violation(&sig, &format!("operand #{}: {}", i, d));
                    break;
                }
                Err(p) => {
                    self.cx.log.panic_violation_ctx(&sig, &format!("operand #{}", i), &p);
                    break;
                }
            }
        }
    }
}

/// word operands: zero, all-ones, one-hot, MAX-ish, random
macro_rules! gen_word {
    ($name:ident, $t:ty, $bits:expr) => {
        fn $name(r: &mut Rng, i: usize) -> $t {
            match i % 7 {
                0 => 0,
                1 => <$t>::MAX,
                2 => (1 as $t) << (r.below($bits) as u32),
                3 => <$t>::MAX - (r.below(3) as $t),
                4 => 1,
                _ => r.u128() as $t,
            }
        }
    };
}
gen_word!(w32, u32, 32);
gen_word!(w64, u64, 64);
gen_word!(w128, u128, 128);

fn eq<T: PartialEq + core::fmt::Debug>(what: &str, got: T, exp: T) -> Result<(), String> {
    if got != exp {
        Err(format!("{}: got {:x?} expected {:x?}", what, got, exp))
    } else {
        Ok(())
    }
}

macro_rules! vec4_checks {
    ($sc:expr, $V:ident, $tyname:expr, $w:ty, $gen:ident, $bits:expr) => {{
        let get = |v: $V| -> [$w; 4] { [v.extract(0), v.extract(1), v.extract(2), v.extract(3)] };
        let mk = |r: &mut Rng, i: usize| -> [$w; 4] {
            match i {
                0 => [0; 4],
                1 => [<$w>::MAX; 4],
                _ => [$gen(r, i), $gen(r, i + 1), $gen(r, i + 2), $gen(r, i + 3)],
            }
        };
        let v = |a: [$w; 4]| $V::new(a[0], a[1], a[2], a[3]);
        $sc.check($tyname, "new/extract", &|i, r| {
            let a = mk(r, i);
            eq("extract of new", get(v(a)), a)
        });
        $sc.check($tyname, "add", &|i, r| {
            let (a, b) = (mk(r, i), if i == 1 { [1; 4] } else { mk(r, i + 1) });
            let e: [$w; 4] = core::array::from_fn(|k| a[k].wrapping_add(b[k]));
            eq("a + b", get(v(a) + v(b)), e)
        });
        $sc.check($tyname, "add_assign", &|i, r| {
            let (a, b) = (mk(r, i), if i == 1 { [1; 4] } else { mk(r, i + 1) });
            let e: [$w; 4] = core::array::from_fn(|k| a[k].wrapping_add(b[k]));
            let mut x = v(a);
            x += v(b);
            eq("a += b", get(x), e)
        });
        $sc.check($tyname, "xor", &|i, r| {
            let (a, b) = (mk(r, i), mk(r, i + 1));
            let e: [$w; 4] = core::array::from_fn(|k| a[k] ^ b[k]);
            eq("a ^ b", get(v(a) ^ v(b)), e)?;
            let mut x = v(a);
            x ^= v(b);
            eq("a ^= b", get(x), e)
        });
        $sc.check($tyname, "or", &|i, r| {
            let (a, b) = (mk(r, i), mk(r, i + 1));
            let e: [$w; 4] = core::array::from_fn(|k| a[k] | b[k]);
            eq("a | b", get(v(a) | v(b)), e)
        });
        $sc.check($tyname, "and", &|i, r| {
            let (a, b) = (mk(r, i), mk(r, i + 1));
            let e: [$w; 4] = core::array::from_fn(|k| a[k] & b[k]);
            eq("a & b", get(v(a) & v(b)), e)
        });
        $sc.check($tyname, "rotate_right", &|i, r| {
            let a = mk(r, i);
            let amt: [$w; 4] = core::array::from_fn(|k| if i < $bits - 1 { ((i + k) % ($bits - 1) + 1) as $w } else { (1 + r.below($bits - 1)) as $w });
            let e: [$w; 4] = core::array::from_fn(|k| a[k].rotate_right(amt[k] as u32));
            let mut x = v(a);
            eq("rotate_right(per-lane amounts)", get(x.rotate_right(v(amt))), e)?;
            // like the scalar `a.rotate_right(n)`, the value-returning form leaves its operand
            // alone: rotating the same vector again by another amount starts from `a`
            let amt2: [$w; 4] = core::array::from_fn(|k| (amt[(k + 1) % 4] % ($bits - 1)) + 1);
            let e2: [$w; 4] = core::array::from_fn(|k| a[k].rotate_right(amt2[k] as u32));
            eq("a second rotate_right of the same vector", get(x.rotate_right(v(amt2))), e2)?;
            eq("the operand after rotate_right", get(x), a)
        });
        $sc.check($tyname, "splat_rotate_right", &|i, r| {
            let a = mk(r, i);
            let amt = (i % ($bits - 1) + 1) as u32; // every amount 1..bits-1
            let e: [$w; 4] = core::array::from_fn(|k| a[k].rotate_right(amt));
            eq(&format!("splat_rotate_right({})", amt), get(v(a).splat_rotate_right(amt)), e)
        });
        $sc.check($tyname, "rotate_words_right", &|i, r| {
            let a = mk(r, i + 2);
            let k = (i % 4) as u32;
            let e: [$w; 4] = core::array::from_fn(|j| a[(j + 4 - k as usize) % 4]);
            eq(&format!("rotate_words_right({})", k), get(v(a).rotate_words_right(k)), e)
        });
        $sc.check($tyname, "splat", &|i, r| {
            let x = $gen(r, i);
            eq("splat", get($V::splat(x)), [x; 4])
        });
        $sc.check($tyname, "slice-io", &|i, r| {
            let a = mk(r, i + 2);
            eq("from_slice_unaligned", get($V::from_slice_unaligned(&a[..])), a)?;
            let mut o = [0 as $w; 4];
            v(a).write_to_slice_unaligned(&mut o[..]);
            eq("write_to_slice_unaligned", o, a)
        });
        $sc.check($tyname, "replace", &|i, r| {
            let a = mk(r, i + 2);
            let x = $gen(r, i + 5);
            let k = i % 4;
            let mut e = a;
            e[k] = x;
            eq(&format!("replace({})", k), get(v(a).replace(k, x)), e)
        });
    }};
}

fn scan(sc: &mut Sc) {
    vec4_checks!(sc, u32x4, "u32x4", u32, w32, 32);
    vec4_checks!(sc, u64x4, "u64x4", u64, w64, 64);
    // ---------------- u128x1
    {
        let mk = |r: &mut Rng, i: usize| -> u128 { w128(r, i) };
        sc.check("u128x1", "new/into_inner/extract", &|i, r| {
            let a = mk(r, i);
            eq("into_inner", u128x1::new(a).into_inner(), a)?;
            eq("extract(0)", u128x1::new(a).extract(0), a)
        });
        sc.check("u128x1", "add_assign", &|i, r| {
            let (a, b) = if i == 0 { (u128::MAX, 1) } else { (mk(r, i), mk(r, i + 1)) };
            let mut x = u128x1::new(a);
            x += u128x1::new(b);
            eq("a += b", x.into_inner(), a.wrapping_add(b))
        });
        sc.check("u128x1", "xor", &|i, r| {
            let (a, b) = (mk(r, i), mk(r, i + 1));
            eq("a ^ b", (u128x1::new(a) ^ u128x1::new(b)).into_inner(), a ^ b)?;
            let mut x = u128x1::new(a);
            x ^= u128x1::new(b);
            eq("a ^= b", x.into_inner(), a ^ b)
        });
        sc.check("u128x1", "and", &|i, r| {
            let (a, b) = (mk(r, i), mk(r, i + 1));
            eq("a & b", (u128x1::new(a) & u128x1::new(b)).into_inner(), a & b)
        });
        sc.check("u128x1", "not", &|i, r| {
            let a = mk(r, i);
            eq("!a", (!u128x1::new(a)).into_inner(), !a)
        });
        sc.check("u128x1", "andnot", &|i, r| {
            let (a, b) = (mk(r, i), mk(r, i + 1));
            eq("andnot", u128x1::new(a).andnot(u128x1::new(b)).into_inner(), !a & b)
        });
        sc.check("u128x1", "rotate_right", &|i, r| {
            let a = mk(r, i + 2);
            let amt = (i % 127 + 1) as u128;
            let mut x = u128x1::new(a);
            x.rotate_right(amt);
            eq(&format!("rotate_right({})", amt), x.into_inner(), a.rotate_right(amt as u32))
        });
        sc.check("u128x1", "load/xor_store", &|i, r| {
            let (a, b) = (mk(r, i), mk(r, i + 1));
            eq("load", u128x1::load(&[a]).into_inner(), a)?;
            let mut o = [b];
            u128x1::new(a).xor_store(&mut o);
            eq("xor_store", o[0], a ^ b)
        });
        for (name, nbits) in [("swap1", 1u32), ("swap2", 2), ("swap4", 4), ("swap8", 8), ("swap16", 16), ("swap32", 32), ("swap64", 64)] {
            sc.check("u128x1", name, &|i, r| {
                let a = if i < 128 { 1u128 << i } else { mk(r, i) };
                let x = u128x1::new(a);
                let g = match nbits {
                    1 => x.swap1(),
                    2 => x.swap2(),
                    4 => x.swap4(),
                    8 => x.swap8(),
                    16 => x.swap16(),
                    32 => x.swap32(),
                    _ => x.swap64(),
                };
                let e = crate::lanes::swap(&a.to_le_bytes(), nbits);
                eq(name, g.into_inner().to_le_bytes().to_vec(), e)
            });
        }
    }
    // ---------------- u128x2
    {
        let mk = |r: &mut Rng, i: usize| -> [u128; 2] { [w128(r, i), w128(r, i + 3)] };
        let get = |v: u128x2| -> [u128; 2] { [v.extract(0), v.extract(1)] };
        let v = |a: [u128; 2]| u128x2::new(a[0], a[1]);
        sc.check("u128x2", "new/extract", &|i, r| {
            let a = mk(r, i);
            eq("extract", get(v(a)), a)
        });
        sc.check("u128x2", "add_assign", &|i, r| {
            let (a, b) = if i == 0 { ([u128::MAX; 2], [1, 2]) } else { (mk(r, i), mk(r, i + 1)) };
            let mut x = v(a);
            x += v(b);
            eq("a += b", get(x), [a[0].wrapping_add(b[0]), a[1].wrapping_add(b[1])])
        });
        sc.check("u128x2", "xor_assign", &|i, r| {
            let (a, b) = (mk(r, i), mk(r, i + 1));
            let mut x = v(a);
            x ^= v(b);
            eq("a ^= b", get(x), [a[0] ^ b[0], a[1] ^ b[1]])
        });
        sc.check("u128x2", "and/or/not/andnot", &|i, r| {
            let (a, b) = (mk(r, i), mk(r, i + 1));
            eq("a & b", get(v(a) & v(b)), [a[0] & b[0], a[1] & b[1]])?;
            eq("a | b", get(v(a) | v(b)), [a[0] | b[0], a[1] | b[1]])?;
            eq("!a", get(!v(a)), [!a[0], !a[1]])?;
            eq("andnot", get(v(a).andnot(v(b))), [!a[0] & b[0], !a[1] & b[1]])
        });
        sc.check("u128x2", "rotate_right", &|i, r| {
            let a = mk(r, i + 2);
            let amt = (i % 127 + 1) as u128;
            let mut x = v(a);
            x.rotate_right(amt);
            eq(&format!("rotate_right({})", amt), get(x), [a[0].rotate_right(amt as u32), a[1].rotate_right(amt as u32)])
        });
        sc.check("u128x2", "load/xor_store", &|i, r| {
            let (a, b) = (mk(r, i), mk(r, i + 1));
            eq("load", get(u128x2::load(&a[..])), a)?;
            let mut o = b;
            v(a).xor_store(&mut o[..]);
            eq("xor_store", o, [a[0] ^ b[0], a[1] ^ b[1]])
        });
    }
    // ---------------- u32x4x4
    {
        let mk = |r: &mut Rng, i: usize| -> [[u32; 4]; 4] {
            core::array::from_fn(|k| match i {
                0 => [0; 4],
                1 => [u32::MAX; 4],
                _ => [w32(r, i + k), w32(r, i + k + 1), w32(r, i + k + 2), w32(r, i + k + 3)],
            })
        };
        let v = |a: [[u32; 4]; 4]| {
            let p = |x: [u32; 4]| u32x4::new(x[0], x[1], x[2], x[3]);
            u32x4x4::from((p(a[0]), p(a[1]), p(a[2]), p(a[3])))
        };
        let get = |x: u32x4x4| -> [[u32; 4]; 4] {
            let (a, b, c, d) = x.into_parts();
            let g = |v: u32x4| [v.extract(0), v.extract(1), v.extract(2), v.extract(3)];
            [g(a), g(b), g(c), g(d)]
        };
        let zip = |a: [[u32; 4]; 4], b: [[u32; 4]; 4], f: &dyn Fn(u32, u32) -> u32| -> [[u32; 4]; 4] { core::array::from_fn(|i| core::array::from_fn(|j| f(a[i][j], b[i][j]))) };
        sc.check("u32x4x4", "from/into_parts", &|i, r| {
            let a = mk(r, i);
            eq("into_parts(from)", get(v(a)), a)
        });
        sc.check("u32x4x4", "splat", &|i, r| {
            let a = mk(r, i + 2)[0];
            eq("splat", get(u32x4x4::splat(u32x4::new(a[0], a[1], a[2], a[3]))), [a; 4])
        });
        sc.check("u32x4x4", "add", &|i, r| {
            let (a, b) = (mk(r, i), if i == 1 { [[1; 4]; 4] } else { mk(r, i + 1) });
            let e = zip(a, b, &|x, y| x.wrapping_add(y));
            eq("a + b", get(v(a) + v(b)), e)?;
            let mut x = v(a);
            x += v(b);
            eq("a += b", get(x), e)
        });
        sc.check("u32x4x4", "xor/or/and", &|i, r| {
            let (a, b) = (mk(r, i), mk(r, i + 1));
            eq("a ^ b", get(v(a) ^ v(b)), zip(a, b, &|x, y| x ^ y))?;
            eq("a | b", get(v(a) | v(b)), zip(a, b, &|x, y| x | y))?;
            eq("a & b", get(v(a) & v(b)), zip(a, b, &|x, y| x & y))?;
            let mut x = v(a);
            x ^= v(b);
            eq("a ^= b", get(x), zip(a, b, &|x, y| x ^ y))
        });
        sc.check("u32x4x4", "rotate_words_right", &|i, r| {
            let a = mk(r, i + 2);
            let k = (i % 4) as u32;
            let e: [[u32; 4]; 4] = core::array::from_fn(|l| core::array::from_fn(|j| a[l][(j + 4 - k as usize) % 4]));
            eq(&format!("rotate_words_right({})", k), get(v(a).rotate_words_right(k)), e)
        });
        sc.check("u32x4x4", "splat_rotate_right", &|i, r| {
            let a = mk(r, i + 2);
            let amt = (i % 31 + 1) as u32;
            let e: [[u32; 4]; 4] = core::array::from_fn(|l| core::array::from_fn(|j| a[l][j].rotate_right(amt)));
            eq(&format!("splat_rotate_right({})", amt), get(v(a).splat_rotate_right(amt)), e)
        });
    }
}

pub fn run(cx: &mut Ctx) {
    let seed = mix(&[cx.seed, cx.shard]);
    let n = cx.budget as usize;
    let mut sc = Sc { cx, seed, n, only: None };
    scan(&mut sc);
}

pub fn replay(cx: &mut Ctx, desc: &str) {
    let d = Desc::parse(desc);
    let mut sc = Sc { cx, seed: d.u64("seed"), n: d.u64("n") as usize, only: Some((d.str("ty").to_string(), d.str("op").to_string())) };
    scan(&mut sc);
}
