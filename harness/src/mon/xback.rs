//! C03 — identical results on every SIMD backend and build configuration.
//! One deterministic transcript per (seed, shard), identical in every build configuration:
//! ChaCha wide + narrow keystreams, BLAKE-224/256/384/512 digests, JH digests and single F8
//! compressions. Every configuration / forced backend is compared with the reference model on
//! every case, and logs a rolling digest of its outputs that the driver cross-checks between
//! configurations (a second net: "all agree" and "all agree with the reference").

use super::Ctx;
use crate::api::{self, Fam, HashId};
use crate::log::{guarded, Desc};
use crate::prng::{fnv, mix, Rng};
use crate::refmodel::chacha::RefStream;
use digest::generic_array::GenericArray;

pub struct Case {
    pub kind: u8, // 0 chacha, 1 blake, 2 jh digest, 3 jh f8, 4 generic vector kernel
    pub seed: u64,
}
impl Case {
    fn desc(&self, fb: u8) -> String {
        format!("kind={} seed={} fb={}", self.kind, self.seed, fb)
    }
    fn algo(&self) -> &'static str {
        ["chacha", "blake", "jh", "jh-f8", "vector-kernel"][self.kind as usize]
    }
}

/// The machine type a forced level (or this build's own choice, level 0) stands for.
fn machine_for(fb: u8) -> &'static str {
    if cfg!(any(feature = "portable", miri)) {
        return "generic";
    }
    match fb {
        1 => "sse2",
        2 => "ssse3",
        3 => "sse41",
        4 => "avx",
        5 => "avx2",
        _ => match api::build_kind() {
            "nostd-sse2" => "sse2",
            "nostd-ssse3" => "ssse3",
            "nostd-sse41" => "sse41",
            "nostd-avx" => "avx",
            _ => "avx2",
        },
    }
}

/// "Vector computation" (C03): a downstream-style kernel written against the `Machine` traits --
/// four *different* 128-bit lanes per row, rows built through every constructor (from_lanes /
/// vec, read_le, unpack), ChaCha-like rounds with per-lane word shuffles and a transpose, results
/// read back through to_lanes, write_le, storage and to_scalars. Must be bit-identical on every
/// machine type; the expected value is the same kernel on the scalar lane model.
struct Kernel<'a> {
    inp: &'a [u8],
    out: Vec<u8>,
}
impl<'a> crate::machines::MachFn for Kernel<'a> {
    #[inline(always)]
    fn call<M: ppv_lite86::Machine>(&mut self, _n: &'static str, m: M) {
        use ppv_lite86::*;
        let i = self.inp;
        let s128 = |b: &[u8]| -> vec128_storage {
            let w: [u32; 4] = core::array::from_fn(|k| u32::from_le_bytes([b[4 * k], b[4 * k + 1], b[4 * k + 2], b[4 * k + 3]]));
            w.into()
        };
        let l = |b: &[u8]| -> M::u32x4 { m.read_le(b) };
        let mut a: M::u32x4x4 = m.vec([l(&i[0..16]), l(&i[16..32]), l(&i[32..48]), l(&i[48..64])]);
        let mut b: M::u32x4x4 = m.read_le(&i[64..128]);
        let mut c: M::u32x4x4 = m.unpack(vec512_storage::new128([s128(&i[128..144]), s128(&i[144..160]), s128(&i[160..176]), s128(&i[176..192])]));
        let mut d: M::u32x4x4 = <M::u32x4x4 as MultiLane<[M::u32x4; 4]>>::from_lanes([m.unpack(s128(&i[192..208])), m.unpack(s128(&i[208..224])), l(&i[224..240]), l(&i[240..256])]);
        for _ in 0..3 {
            a = a + b;
            d = (d ^ a).rotate_each_word_right16();
            c = c + d;
            b = (b ^ c).rotate_each_word_right20();
            a = a + b;
            d = (d ^ a).rotate_each_word_right24();
            c = c + d;
            b = (b ^ c).rotate_each_word_right25();
            b = b.shuffle_lane_words3012();
            c = c.shuffle_lane_words2301();
            d = d.shuffle_lane_words1230();
            let t = <M::u32x4x4 as Vec4Ext<M::u32x4>>::transpose4(a, b, c, d);
            a = t.0;
            b = t.1;
            c = t.2;
            d = t.3;
        }
        // a narrower kernel on the 256-bit and 64-bit-word types, lanes again distinct
        let p: M::u32x4x2 = m.vec([a.extract(1), d.extract(2)]);
        let q: M::u64x4 = m.read_le(&i[32..64]);
        let q = (q + q.shuffle1230()).rotate_each_word_right32() ^ q.shuffle3012();
        let mut o = Vec::with_capacity(64 * 4 + 64);
        for x in a.to_lanes() {
            let mut t = [0u8; 16];
            x.write_le(&mut t);
            o.extend_from_slice(&t);
        }
        let mut t = [0u8; 64];
        b.write_le(&mut t);
        o.extend_from_slice(&t);
        let st: vec512_storage = c.into();
        for x in st.split128() {
            let w: [u32; 4] = x.into();
            for v in w {
                o.extend_from_slice(&v.to_le_bytes());
            }
        }
        for v in d.to_scalars() {
            o.extend_from_slice(&v.to_le_bytes());
        }
        let mut t = [0u8; 32];
        p.write_le(&mut t);
        o.extend_from_slice(&t);
        q.write_le(&mut t);
        o.extend_from_slice(&t);
        self.out = o;
    }
}

fn kernel_model(i: &[u8]) -> Vec<u8> {
    use crate::lanes as L;
    let (mut a, mut b, mut c, mut d) = (i[0..64].to_vec(), i[64..128].to_vec(), i[128..192].to_vec(), i[192..256].to_vec());
    for _ in 0..3 {
        a = L::add(&a, &b, 32);
        d = L::rotr(&L::xor(&d, &a), 32, 16);
        c = L::add(&c, &d, 32);
        b = L::rotr(&L::xor(&b, &c), 32, 20);
        a = L::add(&a, &b, 32);
        d = L::rotr(&L::xor(&d, &a), 32, 24);
        c = L::add(&c, &d, 32);
        b = L::rotr(&L::xor(&b, &c), 32, 25);
        b = L::lane_shuffle(&b, 3012);
        c = L::lane_shuffle(&c, 2301);
        d = L::lane_shuffle(&d, 1230);
        let t = L::transpose4(&a, &b, &c, &d);
        a = t[0].clone();
        b = t[1].clone();
        c = t[2].clone();
        d = t[3].clone();
    }
    let mut p = a[16..32].to_vec();
    p.extend_from_slice(&d[32..48]);
    let q = i[32..64].to_vec();
    let q = L::xor(&L::rotr(&L::add(&q, &L::shuffle1230(&q, 64), 64), 64, 32), &L::shuffle3012(&q, 64));
    let mut o = a;
    o.extend(b);
    o.extend(c);
    o.extend(d);
    o.extend(p);
    o.extend(q);
    o
}

/// (real output on backend `fb`, reference output)
fn compute(c: &Case, fb: u8) -> (Result<Vec<u8>, String>, Vec<u8>) {
    let mut r = Rng::new(c.seed);
    match c.kind {
        4 => {
            let inp = r.bytes(256);
            let exp = kernel_model(&inp);
            let got = guarded(|| {
                let mut k = Kernel { inp: &inp, out: Vec::new() };
                crate::machines::run(machine_for(fb), &mut k);
                k.out
            });
            (got, exp)
        }
        0 => {
            let ty = api::CIPHERS[r.below(7) as usize];
            let (layout, dr, nlen) = api::cipher_params(ty);
            let (key, nonce) = super::key_nonce(r.u64(), nlen);
            let len = match r.below(3) {
                0 => r.below(64),
                1 => 64 + r.below(200),
                _ => 256 + r.below(1100),
            } as usize;
            let is_ietf = layout == crate::refmodel::chacha::Layout::Ietf;
            // positions over the whole seekable range, so that both counter words are exercised:
            // two seek+apply steps on one instance, the second with a different counter high word
            let mut pick = |r: &mut Rng, len: usize| -> u128 {
                let p: u128 = match r.below(6) {
                    0 => 0,
                    1 => r.below(64) as u128,
                    2 => ((1u128 << 38) - 2048) + r.below(1024) as u128,
                    3 => (r.u64() >> 27) as u128,
                    // just below a 2^32-block multiple (the narrow path then steps the high word)
                    4 => (((1 + r.below(1 << 20)) as u128) << 38) - 64 * (1 + r.below(3)) as u128 - r.below(64) as u128,
                    _ => r.u64() as u128,
                };
                if is_ietf {
                    (p % (1u128 << 38)).min((1u128 << 38) - len as u128)
                } else {
                    p.min(u64::MAX as u128)
                }
            };
            let pos = pick(&mut r, len);
            let len2 = 1 + r.below(200) as usize;
            let pos2 = pick(&mut r, len2);
            let data = r.bytes(len);
            let data2 = r.bytes(len2);
            let mut exp = data.clone();
            let mut rf = RefStream::new(layout, dr, &key, &nonce);
            rf.xor(pos, &mut exp);
            let mut e2 = data2.clone();
            rf.xor(pos2, &mut e2);
            exp.extend_from_slice(&e2);
            api::force_backend(fb);
            let got = guarded(|| {
                let mut ci = api::new_cipher(ty, &key, &nonce);
                let mut d = data.clone();
                ci.try_seek(api::SeekTy::U64, pos, false).expect("seek");
                ci.try_apply(&mut d).expect("apply");
                let mut d2 = data2.clone();
                ci.try_seek(api::SeekTy::U64, pos2, false).expect("seek");
                ci.try_apply(&mut d2).expect("apply");
                d.extend_from_slice(&d2);
                d
            });
            api::force_backend(0);
            (got, exp)
        }
        1 | 2 => {
            let fam = if c.kind == 1 { Fam::Blake } else { Fam::Jh };
            let bits = [224u32, 256, 384, 512][r.below(4) as usize];
            let id = HashId { fam, bits, out: bits as usize / 8 };
            let len = match r.below(3) {
                0 => r.below(140),
                1 => r.below(600),
                _ => r.below(if c.kind == 1 { 5000 } else { 1500 }),
            } as usize;
            let msg = r.bytes(len);
            let exp = id.reference(&msg);
            api::force_backend(fb);
            let got = guarded(|| {
                // incremental in two pieces: compress (dispatch!) and finalize (dispatch_light256!) both run forced
                let mut h = id.new();
                let cut = len / 2;
                h.update(&msg[..cut]);
                h.update(&msg[cut..]);
                h.finalize_box()
            });
            api::force_backend(0);
            (got, exp)
        }
        _ => {
            let mut st = [0u8; 128];
            r.fill(&mut st);
            let blk = r.bytes(64);
            let exp = crate::refmodel::jh::f8(&st, &blk).to_vec();
            api::force_backend(fb);
            let got = guarded(|| {
                let mut cp = jh_x86_64::compressor::Compressor::new(st);
                cp.input(GenericArray::from_slice(&blk));
                cp.finalize().to_vec()
            });
            api::force_backend(0);
            (got, exp)
        }
    }
}

fn exec(cx: &mut Ctx, c: &Case, fb: u8, roll: &mut u64) {
    let cfgname = format!("{}-{}", api::build_kind(), api::profile());
    let bname = api::BACKEND_NAMES[fb as usize];
    cx.log.announce(&c.desc(fb));
    cx.log.nontrivial();
    cx.log.class(&format!("matrix/{}/{}/{}", cfgname, bname, c.algo()));
    let (got, exp) = compute(c, fb);
    cx.log.eval(1);
    match got {
        Ok(g) => {
            *roll = mix(&[*roll, fnv(&g)]);
            if g != exp {
                cx.log.violation(
                    &format!("C03|{}|{}|{}|differs-from-reference", cfgname, bname, c.algo()),
                    &format!("{} on backend {} of {} gives a result that differs from the reference (and therefore from every conforming backend)", c.algo(), bname, cfgname),
                );
            }
        }
        Err(p) => {
            *roll = mix(&[*roll, 0xdead]);
            cx.log.panic_violation(&format!("C03|{}|{}|{}", cfgname, bname, c.algo()), &p);
        }
    }
}

/// One generic vector-kernel case for the per-configuration conformance transcript of C20.
pub fn smoke_kernel(cx: &mut Ctx, seed: u64, class: &str) {
    let c = Case { kind: 4, seed };
    cx.log.announce(&format!("algo=kernel {}", c.desc(0)));
    cx.log.nontrivial();
    cx.log.class(class);
    let (got, exp) = compute(&c, 0);
    cx.log.eval(1);
    let cfgname = format!("{}-{}", api::build_kind(), api::profile());
    match got {
        Ok(g) => {
            if g != exp {
                cx.log.violation(&format!("C20|{}|vector-kernel|differs-from-reference", cfgname), "the generic vector kernel gives a result that differs from the scalar lane model in this configuration");
            }
        }
        Err(p) => cx.log.panic_violation(&format!("C20|{}|vector-kernel", cfgname), &p),
    }
}

pub fn run(cx: &mut Ctx) {
    cx.selftest(crate::refmodel::T_CHACHA | crate::refmodel::T_BLAKE | crate::refmodel::T_JH);
    // the transcript depends on (seed, shard) only -- never on the configuration
    let mut rng = Rng::new(mix(&[cx.seed, cx.shard, 0xc03]));
    let levels = api::backend_levels();
    let mut roll = vec![0u64; 6];
    for i in 0..cx.budget {
        let c = Case { kind: (i % 5) as u8, seed: rng.u64() };
        for &fb in levels {
            exec(cx, &c, fb, &mut roll[fb as usize]);
        }
    }
    let cfgname = format!("{}-{}", api::build_kind(), api::profile());
    for &fb in levels {
        cx.log.note(
            &format!("transcript:shard={}/{} budget={}", cx.shard, cx.nshards, cx.budget),
            &format!("{}/{}={:016x}", cfgname, api::BACKEND_NAMES[fb as usize], roll[fb as usize]),
        );
    }
}

pub fn replay(cx: &mut Ctx, desc: &str) {
    let d = Desc::parse(desc);
    let c = Case { kind: d.u64("kind") as u8, seed: d.u64("seed") };
    let mut roll = 0u64;
    exec(cx, &c, d.u64("fb") as u8, &mut roll);
}
