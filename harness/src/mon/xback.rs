//! C03 — identical results on every SIMD backend and build configuration.
//! One deterministic transcript per (seed, shard), identical in every build configuration:
//! ChaCha wide + narrow keystreams, BLAKE-224/256/384/512 digests, JH digests and single F8
//! compressions. Every configuration / forced backend is compared with the reference model on
//! every case, and logs a rolling digest of its outputs that the driver cross-checks between
//! configurations (a second net: "all agree" and "all agree with the reference").

use super::Ctx;
use crate::api::{self, Fam, HashId};
use crate::log::{guarded, Desc};
use crate::prng::{fnv, mix, Rng};
use crate::refmodel::chacha::RefStream;
use digest::generic_array::GenericArray;

pub struct Case {
    pub kind: u8, // 0 chacha, 1 blake, 2 jh digest, 3 jh f8
    pub seed: u64,
}
impl Case {
    fn desc(&self, fb: u8) -> String {
        format!("kind={} seed={} fb={}", self.kind, self.seed, fb)
    }
    fn algo(&self) -> &'static str {
        ["chacha", "blake", "jh", "jh-f8"][self.kind as usize]
    }
}

/// (real output on backend `fb`, reference output)
fn compute(c: &Case, fb: u8) -> (Result<Vec<u8>, String>, Vec<u8>) {
    let mut r = Rng::new(c.seed);
    match c.kind {
        0 => {
            let ty = api::CIPHERS[r.below(7) as usize];
            let (layout, dr, nlen) = api::cipher_params(ty);
            let (key, nonce) = super::key_nonce(r.u64(), nlen);
            let len = match r.below(3) {
                0 => r.below(64),
                1 => 64 + r.below(200),
                _ => 256 + r.below(1100),
            } as usize;
            let is_ietf = layout == crate::refmodel::chacha::Layout::Ietf;
            // positions over the whole seekable range, so that both counter words are exercised:
            // two seek+apply steps on one instance, the second with a different counter high word
            let mut pick = |r: &mut Rng, len: usize| -> u128 {
                let p: u128 = match r.below(6) {
                    0 => 0,
                    1 => r.below(64) as u128,
                    2 => ((1u128 << 38) - 2048) + r.below(1024) as u128,
                    3 => (r.u64() >> 27) as u128,
                    // just below a 2^32-block multiple (the narrow path then steps the high word)
                    4 => (((1 + r.below(1 << 20)) as u128) << 38) - 64 * (1 + r.below(3)) as u128 - r.below(64) as u128,
                    _ => r.u64() as u128,
                };
                if is_ietf {
                    (p % (1u128 << 38)).min((1u128 << 38) - len as u128)
                } else {
                    p.min(u64::MAX as u128)
                }
            };
            let pos = pick(&mut r, len);
            let len2 = 1 + r.below(200) as usize;
            let pos2 = pick(&mut r, len2);
            let data = r.bytes(len);
            let data2 = r.bytes(len2);
            let mut exp = data.clone();
            let mut rf = RefStream::new(layout, dr, &key, &nonce);
            rf.xor(pos, &mut exp);
            let mut e2 = data2.clone();
            rf.xor(pos2, &mut e2);
            exp.extend_from_slice(&e2);
            api::force_backend(fb);
            let got = guarded(|| {
                let mut ci = api::new_cipher(ty, &key, &nonce);
                let mut d = data.clone();
                ci.try_seek(api::SeekTy::U64, pos, false).expect("seek");
                ci.try_apply(&mut d).expect("apply");
                let mut d2 = data2.clone();
                ci.try_seek(api::SeekTy::U64, pos2, false).expect("seek");
                ci.try_apply(&mut d2).expect("apply");
                d.extend_from_slice(&d2);
                d
            });
            api::force_backend(0);
            (got, exp)
        }
        1 | 2 => {
            let fam = if c.kind == 1 { Fam::Blake } else { Fam::Jh };
            let bits = [224u32, 256, 384, 512][r.below(4) as usize];
            let id = HashId { fam, bits, out: bits as usize / 8 };
            let len = match r.below(3) {
                0 => r.below(140),
                1 => r.below(600),
                _ => r.below(if c.kind == 1 { 5000 } else { 1500 }),
            } as usize;
            let msg = r.bytes(len);
            let exp = id.reference(&msg);
            api::force_backend(fb);
            let got = guarded(|| {
                // incremental in two pieces: compress (dispatch!) and finalize (dispatch_light256!) both run forced
                let mut h = id.new();
                let cut = len / 2;
                h.update(&msg[..cut]);
                h.update(&msg[cut..]);
                h.finalize_box()
            });
            api::force_backend(0);
            (got, exp)
        }
        _ => {
            let mut st = [0u8; 128];
            r.fill(&mut st);
            let blk = r.bytes(64);
            let exp = crate::refmodel::jh::f8(&st, &blk).to_vec();
            api::force_backend(fb);
            let got = guarded(|| {
                let mut cp = jh_x86_64::compressor::Compressor::new(st);
                cp.input(GenericArray::from_slice(&blk));
                cp.finalize().to_vec()
            });
            api::force_backend(0);
            (got, exp)
        }
    }
}

fn exec(cx: &mut Ctx, c: &Case, fb: u8, roll: &mut u64) {
    let cfgname = format!("{}-{}", api::build_kind(), api::profile());
    let bname = api::BACKEND_NAMES[fb as usize];
    cx.log.announce(&c.desc(fb));
    cx.log.nontrivial();
    cx.log.class(&format!("matrix/{}/{}/{}", cfgname, bname, c.algo()));
    let (got, exp) = compute(c, fb);
    cx.log.eval(1);
    match got {
        Ok(g) => {
            *roll = mix(&[*roll, fnv(&g)]);
            if g != exp {
                cx.log.violation(
                    &format!("C03|{}|{}|{}|differs-from-reference", cfgname, bname, c.algo()),
                    &format!("{} on backend {} of {} gives a result that differs from the reference (and therefore from every conforming backend)", c.algo(), bname, cfgname),
                );
            }
        }
        Err(p) => {
            *roll = mix(&[*roll, 0xdead]);
            cx.log.panic_violation(&format!("C03|{}|{}|{}", cfgname, bname, c.algo()), &p);
        }
    }
}

pub fn run(cx: &mut Ctx) {
    cx.selftest(crate::refmodel::T_CHACHA | crate::refmodel::T_BLAKE | crate::refmodel::T_JH);
    // the transcript depends on (seed, shard) only -- never on the configuration
    let mut rng = Rng::new(mix(&[cx.seed, cx.shard, 0xc03]));
    let levels = api::backend_levels();
    let mut roll = vec![0u64; 6];
    for i in 0..cx.budget {
        let c = Case { kind: (i % 4) as u8, seed: rng.u64() };
        for &fb in levels {
            exec(cx, &c, fb, &mut roll[fb as usize]);
        }
    }
    let cfgname = format!("{}-{}", api::build_kind(), api::profile());
    for &fb in levels {
        cx.log.note(
            &format!("transcript:shard={}/{} budget={}", cx.shard, cx.nshards, cx.budget),
            &format!("{}/{}={:016x}", cfgname, api::BACKEND_NAMES[fb as usize], roll[fb as usize]),
        );
    }
}

pub fn replay(cx: &mut Ctx, desc: &str) {
    let d = Desc::parse(desc);
    let c = Case { kind: d.u64("kind") as u8, seed: d.u64("seed") };
    let mut roll = 0u64;
    exec(cx, &c, d.u64("fb") as u8, &mut roll);
}
