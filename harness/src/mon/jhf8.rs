//! C06 (and C03) — single JH compressions: the public `Compressor` (dispatching) and the public
//! generic `f8_impl::<M>` instantiated for every machine, against the reference F8.

use super::Ctx;
use crate::api;
use crate::log::{guarded, Desc};
use crate::machines::{self, MachFn};
use crate::prng::{hex, Rng};
use crate::refmodel::jh as rjh;
use digest::generic_array::GenericArray;
use ppv_lite86::{vec128_storage, Machine};

fn state_block(seed: u64, kind: u64, bit: usize) -> ([u8; 128], [u8; 64]) {
    let mut r = Rng::new(seed);
    let mut st = [0u8; 128];
    let mut bl = [0u8; 64];
    match kind {
        0 => {
            r.fill(&mut st);
            r.fill(&mut bl);
        }
        1 => {
            // one-hot over the 1536 input bits, from a zero base
            if bit < 1024 {
                st[bit / 8] = 0x80 >> (bit % 8);
            } else {
                bl[(bit - 1024) / 8] = 0x80 >> (bit % 8);
            }
        }
        _ => {
            // one bit flipped from a random base
            r.fill(&mut st);
            r.fill(&mut bl);
            if bit < 1024 {
                st[bit / 8] ^= 0x80 >> (bit % 8);
            } else {
                bl[(bit - 1024) / 8] ^= 0x80 >> (bit % 8);
            }
        }
    }
    (st, bl)
}

fn to_storage(st: &[u8; 128]) -> [vec128_storage; 8] {
    core::array::from_fn(|i| {
        let w: [u32; 4] = core::array::from_fn(|j| u32::from_le_bytes([st[16 * i + 4 * j], st[16 * i + 4 * j + 1], st[16 * i + 4 * j + 2], st[16 * i + 4 * j + 3]]));
        w.into()
    })
}
fn from_storage(s: &[vec128_storage; 8]) -> [u8; 128] {
    let mut o = [0u8; 128];
    for i in 0..8 {
        let w: [u32; 4] = s[i].into();
        for j in 0..4 {
            o[16 * i + 4 * j..16 * i + 4 * j + 4].copy_from_slice(&w[j].to_le_bytes());
        }
    }
    o
}

struct F8Direct<'a> {
    st: &'a [u8; 128],
    bl: &'a [u8; 64],
    out: [u8; 128],
}
impl<'a> MachFn for F8Direct<'a> {
    #[inline(always)]
    fn call<M: Machine>(&mut self, _name: &'static str, m: M) {
        let mut s = to_storage(self.st);
        jh_x86_64::compressor::f8_impl::<M>(m, &mut s, self.bl.as_ptr());
        self.out = from_storage(&s);
    }
}

/// path = "compressor" (public dispatching API, forced backend `fb`) or a machine name.
fn exec(cx: &mut Ctx, path: &str, fb: u8, seed: u64, kind: u64, bit: usize) {
    let (st, bl) = state_block(seed, kind, bit);
    let exp = rjh::f8(&st, &bl);
    let sigp = format!("{}|f8|{}", cx.prop, api::profile());
    let got = if path == "compressor" {
        api::force_backend(fb);
        let r = guarded(|| {
            let mut c = jh_x86_64::compressor::Compressor::new(st);
            c.input(GenericArray::from_slice(&bl));
            c.finalize()
        });
        api::force_backend(0);
        r
    } else {
        guarded(|| {
            let mut f = F8Direct { st: &st, bl: &bl, out: [0; 128] };
            machines::run(path, &mut f);
            f.out
        })
    };
    cx.log.eval(1);
    match got {
        Err(p) => cx.log.panic_violation(&format!("{}|{}", sigp, path), &p),
        Ok(g) => {
            if g != exp {
                cx.log.violation(
                    &format!("{}|{}|wrong-f8", sigp, if path == "compressor" { format!("compressor/{}", api::BACKEND_NAMES[fb as usize]) } else { path.to_string() }),
                    &format!("F8 output {} reference {}", hex(&g[..32]), hex(&exp[..32])),
                );
            }
        }
    }
}

fn desc(path: &str, fb: u8, seed: u64, kind: u64, bit: usize) -> String {
    format!("f8={} fb={} seed={} kind={} bit={}", path, fb, seed, kind, bit)
}

/// F8-level workload: budget/4 cases per shard.
pub fn run_f8(cx: &mut Ctx) {
    let mut rng = cx.rng("jhf8");
    let levels = api::backend_levels();
    let n = (cx.budget / 4).max(if cfg!(miri) { 4 } else { 64 });
    let mut paths: Vec<(String, u8)> = levels.iter().map(|&l| ("compressor".to_string(), l)).collect();
    for m in machines::NAMES {
        paths.push((m.to_string(), 0));
    }
    let mut k = 0u64;
    for i in 0..n {
        // a slice of the 1536 one-hot / one-flip cases, then random pairs
        let (kind, bit) = if i < n / 2 {
            k += 1;
            (1 + (k % 2), ((k / 2) * cx.nshards + cx.shard) as usize % 1536)
        } else {
            (0, 0)
        };
        let (path, fb) = &paths[(i % paths.len() as u64) as usize];
        let seed = rng.u64();
        cx.log.announce(&desc(path, *fb, seed, kind, bit));
        cx.log.nontrivial();
        cx.log.class(&format!("f8/{}/{}", if path == "compressor" { format!("compressor-{}", api::BACKEND_NAMES[*fb as usize]) } else { format!("f8_impl<{}>", path) }, ["random", "one-hot", "one-flip"][kind as usize]));
        exec(cx, path, *fb, seed, kind, bit);
    }
}

pub fn replay(cx: &mut Ctx, d: &str) {
    let d = Desc::parse(d);
    let path = d.str("f8");
    cx.log.announce(&desc(path, d.u64("fb") as u8, d.u64("seed"), d.u64("kind"), d.u64("bit") as usize));
    exec(cx, path, d.u64("fb") as u8, d.u64("seed"), d.u64("kind"), d.u64("bit") as usize);
}
