//! C04 / C05 / C06 / C07 — differential digest monitors: `Digest::digest(m)` of the real
//! implementation vs. the independent reference model, over boundary-directed message lengths.
//! C06 additionally compares single compressions through the public `Compressor` and the public
//! generic `f8_impl::<M>` of jh-x86_64 with the reference F8.

use super::{first_diff, Ctx};
use crate::api::{self, Fam, HashId};
use crate::log::{guarded, Desc};
use crate::prng::{hex, Rng};

pub struct Case {
    pub id: HashId,
    pub fb: u8,
    pub len: usize,
    pub pat: u8,
    pub mseed: u64,
}
impl Case {
    pub fn desc(&self) -> String {
        format!("h={} fb={} len={} pat={} mseed={}", self.id.name(), self.fb, self.len, self.pat, self.mseed)
    }
}

pub fn message(len: usize, pat: u8, mseed: u64) -> Vec<u8> {
    let mut v = vec![0u8; len];
    match pat {
        0 => {}
        1 => v.iter_mut().for_each(|b| *b = 0xff),
        2 => v.iter_mut().enumerate().for_each(|(i, b)| *b = i as u8),
        // structured messages a user really hashes: fixed-size records with a common header,
        // repeated and alternating blocks, sparse data, data that looks like padding
        6 | 7 | 8 => {
            let mut r = Rng::new(mseed);
            let rec = [32usize, 64, 128, 256][(mseed >> 7) as usize % 4];
            let mut a = vec![0u8; rec];
            let mut b = vec![0u8; rec];
            r.fill(&mut a);
            r.fill(&mut b);
            for (n, ch) in v.chunks_mut(rec).enumerate() {
                let l = ch.len();
                match pat {
                    6 => {
                        // common header (first half), then zeros or noise, then a sequence number
                        ch.copy_from_slice(&a[..l]);
                        for (i, x) in ch.iter_mut().enumerate().skip(rec / 2) {
                            *x = if mseed & 8 == 0 { 0 } else { b[i] ^ (n as u8).wrapping_mul(29) };
                        }
                        if l == rec {
                            ch[rec - 4..].copy_from_slice(&(n as u32).to_le_bytes());
                        }
                    }
                    7 => ch.copy_from_slice(&a[..l]),
                    _ => ch.copy_from_slice(if n % 2 == 0 { &a[..l] } else { &b[..l] }),
                }
            }
            if pat == 7 && len > 0 {
                // one bit of one copy differs
                let bit = r.below(8 * len as u64) as usize;
                v[bit / 8] ^= 1 << (bit % 8);
            }
        }
        9 => {
            if len > 0 {
                let mut r = Rng::new(mseed);
                let bit = r.below(8 * len as u64) as usize;
                v[bit / 8] = 1 << (bit % 8);
            }
        }
        10 => {
            // random data that ends like a padded message: 0x80 / 0x81 / 0x01, zeros, a length
            let mut r = Rng::new(mseed);
            r.fill(&mut v);
            let tail = (1 + r.below(24) as usize).min(len);
            let start = len - tail;
            for x in &mut v[start..] {
                *x = 0;
            }
            if tail > 0 {
                v[start] = *r.pick(&[0x80u8, 0x81, 0x01]);
                let lb = ((start as u64) * 8).to_be_bytes();
                let n = lb.len().min(tail - 1);
                v[len - n..].copy_from_slice(&lb[8 - n..]);
            }
        }
        11 => {
            Rng::new(mseed).fill(&mut v);
            v.iter_mut().for_each(|b| *b |= 0x80);
        }
        _ => Rng::new(mseed).fill(&mut v),
    }
    v
}

fn len_class(id: &HashId, len: usize) -> String {
    let bs = id.block_size();
    let r = len % bs;
    let fin = match id.fam {
        // where does the padding go: same block, extra block, or a padding-only block
        Fam::Blake => {
            let foot = if bs == 64 { 9 } else { 17 };
            if r == 0 {
                "padding-only-block"
            } else if r + foot > bs {
                "two-final-blocks"
            } else if r + foot == bs {
                "exact-fit"
            } else {
                "one-final-block"
            }
        }
        Fam::Groestl => {
            if bs - r <= 8 {
                "extra-padding-block"
            } else {
                "one-final-block"
            }
        }
        Fam::Jh => {
            if r == 0 {
                "aligned-one-pad-block"
            } else {
                "two-pad-blocks"
            }
        }
        Fam::Skein => {
            if len == 0 {
                "empty"
            } else if r == 0 {
                "exact-multiple"
            } else if len < bs {
                "partial-only"
            } else {
                "full+partial"
            }
        }
    };
    format!("{}/{}", id.name(), fin)
}

thread_local! {
    /// one long-lived instance per hash type, reused across cases through finalize_reset()
    static REUSED: std::cell::RefCell<std::collections::HashMap<String, Box<dyn api::DynHash>>> = std::cell::RefCell::new(std::collections::HashMap::new());
}

thread_local! {
    static LONG_BEFORE: std::cell::Cell<u64> = std::cell::Cell::new(0);
}

pub fn exec(cx: &mut Ctx, c: &Case) {
    let m0 = message(c.len, c.pat, c.mseed);
    // the implementation reads the message from a seeded byte offset inside a larger buffer
    // (a payload behind a header), the reference from the ordinary copy
    let off = (c.mseed >> 3) as usize % 16;
    let mut store = vec![0xEEu8; c.len + 16];
    store[off..off + c.len].copy_from_slice(&m0);
    let m = &store[off..off + c.len];
    let sigp = format!("{}|{}|{}", cx.prop, c.id.name(), api::profile());
    api::force_backend(c.fb);
    let got = guarded(|| c.id.oneshot(m));
    api::force_backend(0);
    cx.log.eval(1);
    let got = match got {
        Ok(g) => g,
        Err(p) => {
            cx.log.panic_violation(&sigp, &p);
            return;
        }
    };
    let exp = c.id.reference(&m0);
    if let Some(i) = first_diff(&got, &exp) {
        cx.log.violation(
            &format!("{}|wrong-digest", sigp),
            &format!("len {}: digest {} reference {} (first difference at byte {})", c.len, hex(&got), hex(&exp), i),
        );
        return;
    }
    // "for every byte string": the same message fed through update() in a seeded partition
    // (a short prefix followed by long pieces, block-straddling cuts) must give the same digest
    if c.len > 0 {
        let mut r = Rng::new(c.mseed ^ 0x5917);
        let bs = c.id.block_size();
        let mut cuts: Vec<usize> = Vec::new();
        let first = match r.below(6) {
            0 => 1,
            1 => bs - 1,
            2 => r.below(bs as u64) as usize,
            3 => bs * (1 + r.below(3) as usize), // the buffer is exactly full / empty at the cut
            4 => (bs * (1 + r.below(3) as usize)).saturating_sub(r.below(2) as usize * 2) + r.below(2) as usize,
            _ => r.below(c.len as u64 + 1) as usize,
        };
        cuts.push(first.min(c.len));
        if r.below(2) == 0 && c.len > first {
            cuts.push((first + 1 + r.below((c.len - first) as u64) as usize).min(c.len));
        }
        api::force_backend(c.fb);
        let inc = guarded(|| {
            let mut h: Box<dyn api::DynHash> = c.id.new();
            let mut at = 0;
            for &k in &cuts {
                // the by-value form (Update::chain / Digest::chain) is a provided method a type may override
                if c.mseed & 16 != 0 {
                    h = h.chain_box(&m[at..k]);
                } else {
                    h.update(&m[at..k]);
                }
                at = k;
                // continue on a clone taken mid-message (the original is dropped), or on an
                // instance that was busy with another message and is overwritten by clone_from
                if c.mseed & 4 != 0 {
                    h = h.box_clone();
                } else if c.mseed & 8 != 0 {
                    let mut d = c.id.new();
                    d.update(&m[..(c.mseed >> 9) as usize % (c.len + 1)]);
                    d.clone_from_dyn(&*h);
                    h = d;
                }
            }
            if c.mseed & 48 == 48 {
                h = h.chain_box(&m[at..]);
            } else {
                h.update(&m[at..]);
            }
            h.finalize_box()
        });
        api::force_backend(0);
        cx.log.eval(1);
        match inc {
            Ok(g) => {
                if g != exp {
                    cx.log.violation(
                        &format!("{}|wrong-digest-incremental", sigp),
                        &format!("len {} fed in pieces cut at {:?}: digest {} reference {}", c.len, cuts, hex(&g), hex(&exp)),
                    );
                }
            }
            Err(p) => cx.log.panic_violation(&format!("{}|incremental", sigp), &p),
        }
    }
    // ... and whatever the instance did before: a long-lived instance that is finalized in place
    // (finalize_fixed_reset) and reused for the next message must give the same digest
    api::force_backend(c.fb);
    let name = c.id.name();
    let reused = guarded(|| {
        REUSED.with(|p| {
            let mut p = p.borrow_mut();
            let h = p.entry(name.clone()).or_insert_with(|| c.id.new());
            // now and then the previous message of the long-lived instance was a very long one
            // (length counter fast-forwarded through hook H2 to just below a word boundary,
            // which the following bytes cross)
            if c.mseed & 0x70 == 0x10 && !cfg!(miri) {
                let lc = super::counters::late_counter(&mut Rng::new(c.mseed), &c.id);
                h.set_counter(lc);
                h.update(&[0x5au8; 600]);
                let _ = h.finalize_reset();
                LONG_BEFORE.with(|n| n.set(n.get() + 1));
            }
            h.update(m);
            if c.mseed & 0x100 != 0 {
                // into caller-provided memory that still holds other data (a reused output buffer)
                let mut out = vec![0xA5u8; exp.len()];
                out.iter_mut().enumerate().for_each(|(i, b)| *b ^= i as u8);
                h.finalize_into_slice(&mut out);
                out
            } else {
                h.finalize_reset()
            }
        })
    });
    api::force_backend(0);
    cx.log.eval(1);
    match reused {
        Ok(g) => {
            if g != exp {
                cx.log.violation(
                    &format!("{}|wrong-digest-reused-instance", sigp),
                    &format!("len {} hashed by an instance reused after finalize_reset: digest {} reference {}", c.len, hex(&g), hex(&exp)),
                );
                // start from a clean instance again so that one bad state is not reported forever
                REUSED.with(|p| p.borrow_mut().remove(&name));
            }
        }
        Err(p) => {
            REUSED.with(|q| q.borrow_mut().remove(&name));
            cx.log.panic_violation(&format!("{}|reused-instance", sigp), &p)
        }
    }
    LONG_BEFORE.with(|n| {
        if n.get() != 0 {
            cx.log.event("reused_instance_after_a_very_long_message", n.get());
            n.set(0);
        }
    });
    cx.log.event("digest_bytes_compared", exp.len() as u64);
    cx.log.event("message_bytes", c.len as u64);
}

fn hash_menu(prop: &str) -> Vec<HashId> {
    let fam = match prop {
        "C04" => Fam::Blake,
        "C05" => Fam::Skein,
        "C06" => Fam::Jh,
        "C07" => Fam::Groestl,
        _ => panic!(),
    };
    if fam == Fam::Skein {
        let mut v = Vec::new();
        for bits in [256u32, 512, 1024] {
            for n in api::SKEIN_N {
                // under Miri the very long outputs (thousands of Threefish calls, in the
                // implementation and in the model) are left to the native builds
                if cfg!(miri) && n > 600 {
                    continue;
                }
                v.push(HashId { fam, bits, out: n });
            }
        }
        v
    } else {
        [224u32, 256, 384, 512].iter().map(|&bits| HashId { fam, bits, out: bits as usize / 8 }).collect()
    }
}

fn uses_ppv(fam: Fam) -> bool {
    matches!(fam, Fam::Blake | Fam::Jh)
}

pub fn run(cx: &mut Ctx) {
    let menu = hash_menu(&cx.prop);
    cx.selftest(menu[0].selftest_mask());
    let mut rng = cx.rng(&cx.prop.clone());
    let levels: &[u8] = if uses_ppv(menu[0].fam) { api::backend_levels() } else { &[0] };
    let slow = matches!(menu[0].fam, Fam::Jh | Fam::Groestl);
    let maxrand: u64 = if cfg!(miri) { 300 } else if slow { 6000 } else { 20000 };
    // part 1: the systematic sweep of every length 0..=3*bs+8, partitioned over shards
    let mut k: u64 = 0;
    let mut done: u64 = 0;
    let sweep_pats: &[u8] = if cfg!(miri) { &[3] } else { &[0, 1, 3, 6] };
    let in_sweep = |id: &HashId| !(id.fam == Fam::Skein && ![1usize, 6, 7, 13, 32, 33, 64, 100, 129, 300].contains(&id.out));
    // when this shard's part of the sweep is larger than half the budget, take a seeded sample of it
    // (every state size and variant is sampled; other seeds take other samples) instead of a prefix
    let total: u64 = menu.iter().filter(|id| in_sweep(id)).map(|id| ((if cfg!(miri) { id.block_size() + 8 } else { 3 * id.block_size() + 8 }) as u64 + 1) * sweep_pats.len() as u64).sum();
    let mine = total / cx.nshards + 1;
    let keep_per_1024: u64 = if mine <= cx.budget / 2 { 1024 } else { (cx.budget / 2) * 1024 / mine };
    cx.log.event("sweep_sampling_per_1024", keep_per_1024);
    'sweep: for id in &menu {
        // Skein: sweep only a sub-menu of N per state size in the systematic part
        if !in_sweep(id) {
            continue;
        }
        let top = if cfg!(miri) { id.block_size() + 8 } else { 3 * id.block_size() + 8 };
        for len in 0..=top {
            for &pat in sweep_pats {
                k += 1;
                if k % cx.nshards != cx.shard {
                    continue;
                }
                if keep_per_1024 < 1024 && crate::prng::mix(&[cx.seed, k, 0x5a3e]) % 1024 >= keep_per_1024 {
                    continue;
                }
                if done >= cx.budget / 2 {
                    break 'sweep;
                }
                done += 1;
                let fb = levels[(k / cx.nshards) as usize % levels.len()];
                let c = Case { id: *id, fb, len, pat, mseed: crate::prng::mix(&[cx.seed, k]) };
                cx.log.announce(&c.desc());
                cx.log.nontrivial();
                cx.log.class(&len_class(id, len));
                cx.log.class(&format!("{}/mod-bs={}", id.fam_name(), len % id.block_size()));
                cx.log.class(&format!("config={}-{}/{}", api::build_kind(), api::profile(), api::BACKEND_NAMES[fb as usize]));
                exec(cx, &c);
            }
        }
    }
    cx.log.event("sweep_cases", done);
    // part 2: random lengths and contents (plus block-count boundaries for Groestl)
    while done < cx.budget {
        done += 1;
        let id = *rng.pick(&menu);
        let bs = id.block_size() as u64;
        let len = match if cfg!(miri) { 0 } else { rng.below(10) } {
            // now and then a message of many KiB in one piece (whole pages, odd sizes)
            0 if !cfg!(miri) && rng.below(8) == 0 => 4096 * rng.range(1, 33) + [0u64, 0, 1, 63, 4095][rng.below(5) as usize],
            0..=3 => rng.below(if cfg!(miri) { bs + 9 } else { 3 * bs + 9 }),
            4..=6 => bs * rng.range(1, 40) + rng.below(3) - 1 + rng.below(2) * (bs - 9),
            7 if id.fam == Fam::Groestl && !cfg!(miri) => 255 * bs + rng.below(3 * bs), // 255/256/257 blocks incl. padding
            _ => rng.below(maxrand),
        } as usize;
        let fb = *rng.pick(levels);
        let c = Case { id, fb, len, pat: rng.below(12) as u8, mseed: rng.u64() };
        cx.log.announce(&c.desc());
        cx.log.nontrivial();
        cx.log.class(&len_class(&id, len));
        cx.log.class(&format!("{}/mod-bs={}", id.fam_name(), len % id.block_size()));
        cx.log.class(&format!("config={}-{}/{}", api::build_kind(), api::profile(), api::BACKEND_NAMES[fb as usize]));
        exec(cx, &c);
    }
    if cx.prop == "C06" {
        super::jhf8::run_f8(cx);
    }
    if cx.arg("huge").map(|v| v == "1").unwrap_or(false) && cx.shard == 0 && !cfg!(miri) {
        super::counters::run_family_huge(cx, menu[0].fam);
    }
    // "all messages of all lengths": a few cases per run hash as if a very long prefix had been
    // absorbed (length counter fast-forwarded through hook H2 on the implementation and on the
    // reference alike), so that counter words and length fields beyond 2^32 are exercised too
    if !cfg!(miri) {
        let fam_menu: Vec<HashId> = if menu[0].fam == Fam::Skein {
            [256u32, 512, 1024].iter().map(|&bits| HashId { fam: Fam::Skein, bits, out: 32 }).collect()
        } else {
            menu.clone()
        };
        let n = (cx.budget / 40).max(8);
        super::counters::run_ff_menu(cx, n, &fam_menu);
    }
}

pub fn replay(cx: &mut Ctx, desc: &str) {
    let d = Desc::parse(desc);
    if d.get("k") == Some("huge") {
        return super::counters::replay(cx, desc);
    }
    if d.get("f8").is_some() {
        return super::jhf8::replay(cx, desc);
    }
    let c = Case { id: HashId::parse(d.str("h")), fb: d.u64("fb") as u8, len: d.u64("len") as usize, pat: d.u64("pat") as u8, mseed: d.u64("mseed") };
    cx.log.announce(&c.desc());
    exec(cx, &c);
}
