//! Reference Groestl-224/256/384/512: 8x8 / 8x16 byte matrix, S-box computed from the GF(2^8)
//! inverse and affine map (consts_gen), MixBytes as circ(02,02,03,04,05,03,05,07) multiplication.

use super::consts_gen::AES_SBOX;

fn gmul(mut a: u16, mut b: u16) -> u8 {
    let mut r = 0u16;
    while b != 0 {
        if b & 1 != 0 {
            r ^= a;
        }
        a <<= 1;
        if a & 0x100 != 0 {
            a ^= 0x11b;
        }
        b >>= 1;
    }
    r as u8
}

struct Tables {
    mul: [[u8; 256]; 8], // mul[k][x] = k * x in GF(2^8), k in 0..8
}
fn tables() -> &'static Tables {
    use std::sync::OnceLock;
    static T: OnceLock<Tables> = OnceLock::new();
    T.get_or_init(|| {
        let mut mul = [[0u8; 256]; 8];
        for k in 0..8 {
            for x in 0..256 {
                mul[k][x] = gmul(k as u16, x as u16);
            }
        }
        Tables { mul }
    })
}

const MB: [usize; 8] = [2, 2, 3, 4, 5, 3, 5, 7];

/// state[row][col]
type St = Vec<[u8; 8]>; // indexed [col][row] for locality

fn perm(st: &mut St, q: bool) {
    let t = tables();
    let cols = st.len();
    let rounds = if cols == 8 { 10 } else { 14 };
    let shift: [usize; 8] = match (cols, q) {
        (8, false) => [0, 1, 2, 3, 4, 5, 6, 7],
        (8, true) => [1, 3, 5, 7, 0, 2, 4, 6],
        (16, false) => [0, 1, 2, 3, 4, 5, 6, 11],
        (16, true) => [1, 3, 5, 11, 0, 2, 4, 6],
        _ => unreachable!(),
    };
    for r in 0..rounds {
        // AddRoundConstant
        for j in 0..cols {
            if !q {
                st[j][0] ^= ((j as u8) << 4) ^ r as u8;
            } else {
                for i in 0..8 {
                    st[j][i] ^= 0xff;
                }
                st[j][7] ^= ((j as u8) << 4) ^ r as u8;
            }
        }
        // SubBytes
        for j in 0..cols {
            for i in 0..8 {
                st[j][i] = AES_SBOX[st[j][i] as usize];
            }
        }
        // ShiftBytes: row i rotates left by shift[i]
        let old = st.clone();
        for i in 0..8 {
            for j in 0..cols {
                st[j][i] = old[(j + shift[i]) % cols][i];
            }
        }
        // MixBytes
        for j in 0..cols {
            let c = st[j];
            let mut n = [0u8; 8];
            for i in 0..8 {
                let mut v = 0u8;
                for k in 0..8 {
                    v ^= t.mul[MB[(k + 8 - i) % 8]][c[k] as usize];
                }
                n[i] = v;
            }
            st[j] = n;
        }
    }
}

fn tomat(b: &[u8]) -> St {
    b.chunks(8)
        .map(|c| {
            let mut a = [0u8; 8];
            a.copy_from_slice(c);
            a
        })
        .collect()
}
fn frommat(s: &St) -> Vec<u8> {
    s.iter().flat_map(|c| c.iter().copied()).collect()
}
fn xor(a: &St, b: &St) -> St {
    a.iter()
        .zip(b.iter())
        .map(|(x, y)| core::array::from_fn(|i| x[i] ^ y[i]))
        .collect()
}

#[derive(Clone)]
pub struct RefGroestl {
    pub bits: u32,
    h: St,
    /// message blocks compressed so far
    pub blocks: u64,
    buf: Vec<u8>,
}

impl RefGroestl {
    pub fn new(bits: u32) -> RefGroestl {
        let cols = if bits <= 256 { 8 } else { 16 };
        let mut iv = vec![0u8; cols * 8];
        let n = iv.len();
        iv[n - 2] = (bits >> 8) as u8;
        iv[n - 1] = bits as u8;
        RefGroestl { bits, h: tomat(&iv), blocks: 0, buf: Vec::new() }
    }
    pub fn block_size(&self) -> usize {
        self.h.len() * 8
    }
    fn compress(&mut self, block: &[u8]) {
        let m = tomat(block);
        let mut p = xor(&self.h, &m);
        perm(&mut p, false);
        let mut q = m;
        perm(&mut q, true);
        self.h = xor(&xor(&p, &q), &self.h);
    }
    pub fn update(&mut self, data: &[u8]) {
        let bs = self.block_size();
        let mut data = data;
        if !self.buf.is_empty() {
            let n = (bs - self.buf.len()).min(data.len());
            self.buf.extend_from_slice(&data[..n]);
            data = &data[n..];
            if self.buf.len() == bs {
                let b = std::mem::take(&mut self.buf);
                self.compress(&b);
                self.blocks = self.blocks.wrapping_add(1);
            }
        }
        while data.len() >= bs {
            self.compress(&data[..bs]);
            self.blocks = self.blocks.wrapping_add(1);
            data = &data[bs..];
        }
        self.buf.extend_from_slice(data);
    }
    pub fn set_counter(&mut self, blocks: u64) {
        self.blocks = blocks;
    }
    pub fn finalize(&self) -> Vec<u8> {
        let mut s = self.clone();
        let bs = s.block_size();
        let mut p = std::mem::take(&mut s.buf);
        p.push(0x80);
        while (p.len() + 8) % bs != 0 {
            p.push(0);
        }
        let total = s.blocks.wrapping_add(((p.len() + 8) / bs) as u64);
        p.extend_from_slice(&total.to_be_bytes());
        for c in p.chunks(bs) {
            s.compress(c);
        }
        let mut x = s.h.clone();
        perm(&mut x, false);
        let o = frommat(&xor(&x, &s.h));
        o[o.len() - s.bits as usize / 8..].to_vec()
    }
}

pub fn groestl(bits: u32, m: &[u8]) -> Vec<u8> {
    let mut s = RefGroestl::new(bits);
    s.update(m);
    s.finalize()
}
