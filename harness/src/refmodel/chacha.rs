//! Reference ChaCha: the RFC 7539 quarter round on sixteen u32, parameterised by the number of
//! double rounds, the counter width / nonce layout and the HChaCha subkey derivation.
//! Written from the specification; shares no code with /repo.

const SIGMA: [u32; 4] = [0x6170_7865, 0x3320_646e, 0x7962_2d32, 0x6b20_6574];

#[inline]
fn qr(s: &mut [u32; 16], a: usize, b: usize, c: usize, d: usize) {
    s[a] = s[a].wrapping_add(s[b]);
    s[d] = (s[d] ^ s[a]).rotate_left(16);
    s[c] = s[c].wrapping_add(s[d]);
    s[b] = (s[b] ^ s[c]).rotate_left(12);
    s[a] = s[a].wrapping_add(s[b]);
    s[d] = (s[d] ^ s[a]).rotate_left(8);
    s[c] = s[c].wrapping_add(s[d]);
    s[b] = (s[b] ^ s[c]).rotate_left(7);
}

fn permute(st: &[u32; 16], drounds: u32) -> [u32; 16] {
    let mut s = *st;
    for _ in 0..drounds {
        qr(&mut s, 0, 4, 8, 12);
        qr(&mut s, 1, 5, 9, 13);
        qr(&mut s, 2, 6, 10, 14);
        qr(&mut s, 3, 7, 11, 15);
        qr(&mut s, 0, 5, 10, 15);
        qr(&mut s, 1, 6, 11, 12);
        qr(&mut s, 2, 7, 8, 13);
        qr(&mut s, 3, 4, 9, 14);
    }
    s
}

fn le32(b: &[u8]) -> u32 {
    u32::from_le_bytes([b[0], b[1], b[2], b[3]])
}

fn init_state(key: &[u8; 32], w: [u32; 4]) -> [u32; 16] {
    let mut st = [0u32; 16];
    st[..4].copy_from_slice(&SIGMA);
    for i in 0..8 {
        st[4 + i] = le32(&key[4 * i..]);
    }
    st[12..].copy_from_slice(&w);
    st
}

/// The ChaCha block function: words 12..15 are given explicitly.
pub fn block(key: &[u8; 32], w: [u32; 4], drounds: u32) -> [u8; 64] {
    let st = init_state(key, w);
    let s = permute(&st, drounds);
    let mut out = [0u8; 64];
    for i in 0..16 {
        out[4 * i..4 * i + 4].copy_from_slice(&s[i].wrapping_add(st[i]).to_le_bytes());
    }
    out
}

/// HChaCha: words 0..3 and 12..15 of the permuted state, no feed-forward.
pub fn hchacha(key: &[u8; 32], n16: &[u8], drounds: u32) -> [u8; 32] {
    assert_eq!(n16.len(), 16);
    let st = init_state(key, [le32(&n16[0..]), le32(&n16[4..]), le32(&n16[8..]), le32(&n16[12..])]);
    let s = permute(&st, drounds);
    let mut out = [0u8; 32];
    for i in 0..4 {
        out[4 * i..4 * i + 4].copy_from_slice(&s[i].to_le_bytes());
        out[16 + 4 * i..16 + 4 * i + 4].copy_from_slice(&s[12 + i].to_le_bytes());
    }
    out
}

#[derive(Clone, Copy, PartialEq, Eq, Debug)]
pub enum Layout {
    /// 64-bit block counter, 64-bit nonce (Bernstein's original)
    Djb,
    /// 32-bit block counter, 96-bit nonce (RFC 7539)
    Ietf,
    /// HChaCha subkey from the first 16 nonce bytes, then 64-bit counter + last 8 nonce bytes
    X,
}

/// A keystream as a pure function of the absolute byte position.
#[derive(Clone)]
pub struct RefStream {
    pub layout: Layout,
    pub drounds: u32,
    key: [u8; 32],
    tail: [u32; 3], // nonce words: Djb/X use [n0,n1,_], Ietf uses all three
    cache: Option<(u64, [u8; 64])>,
}

impl RefStream {
    pub fn new(layout: Layout, drounds: u32, key: &[u8; 32], nonce: &[u8]) -> RefStream {
        match layout {
            Layout::Djb => {
                assert_eq!(nonce.len(), 8);
                RefStream { layout, drounds, key: *key, tail: [le32(&nonce[0..]), le32(&nonce[4..]), 0], cache: None }
            }
            Layout::Ietf => {
                assert_eq!(nonce.len(), 12);
                RefStream {
                    layout,
                    drounds,
                    key: *key,
                    tail: [le32(&nonce[0..]), le32(&nonce[4..]), le32(&nonce[8..])],
                    cache: None,
                }
            }
            Layout::X => {
                assert_eq!(nonce.len(), 24);
                let sub = hchacha(key, &nonce[..16], drounds);
                RefStream { layout, drounds, key: sub, tail: [le32(&nonce[16..]), le32(&nonce[20..]), 0], cache: None }
            }
        }
    }

    /// Number of keystream bytes the variant defines (2^38 for IETF, 2^70 otherwise).
    pub fn limit(&self) -> u128 {
        match self.layout {
            Layout::Ietf => 1u128 << 38,
            _ => 1u128 << 70,
        }
    }

    pub fn block(&self, blk: u64) -> [u8; 64] {
        let w = match self.layout {
            Layout::Ietf => {
                assert!(blk < (1u64 << 32), "IETF block index out of range");
                [blk as u32, self.tail[0], self.tail[1], self.tail[2]]
            }
            _ => [blk as u32, (blk >> 32) as u32, self.tail[0], self.tail[1]],
        };
        block(&self.key, w, self.drounds)
    }

    /// XOR keystream[pos .. pos+len) into `data`.
    pub fn xor(&mut self, pos: u128, data: &mut [u8]) {
        assert!(pos + data.len() as u128 <= self.limit());
        let mut p = pos;
        let mut i = 0usize;
        while i < data.len() {
            let blk = (p / 64) as u64;
            let off = (p % 64) as usize;
            let b = match self.cache {
                Some((c, b)) if c == blk => b,
                _ => {
                    let b = self.block(blk);
                    self.cache = Some((blk, b));
                    b
                }
            };
            let n = (64 - off).min(data.len() - i);
            for k in 0..n {
                data[i + k] ^= b[off + k];
            }
            i += n;
            p += n as u128;
        }
    }

    pub fn keystream(&mut self, pos: u128, len: usize) -> Vec<u8> {
        let mut v = vec![0u8; len];
        self.xor(pos, &mut v);
        v
    }
}

/// Self-test against published vectors (RFC 7539 2.3.2 / 2.4.2, draft-irtf-cfrg-xchacha 2.2.1,
/// and the all-zero-key ChaCha8/12/20 vectors of the original test-vector draft).
pub fn selftest() -> Result<(), String> {
    use crate::prng::{hex, unhex};
    let key: [u8; 32] = core::array::from_fn(|i| i as u8);
    // RFC 7539 section 2.3.2
    let b = block(&key, [1, 0x0900_0000, 0x4a00_0000, 0], 10);
    let exp = "10f1e7e4d13b5915500fdd1fa32071c4c7d1f4c733c068030422aa9ac3d46c4ed2826446079faa0914c2d705d98b02a2b5129cd1de164eb9cbd083e8a2503c4e";
    if hex(&b) != exp {
        return Err(format!("rfc7539 2.3.2 block mismatch: {}", hex(&b)));
    }
    // RFC 7539 section 2.4.2 (sunscreen), counter starts at 1
    let mut s = RefStream::new(Layout::Ietf, 10, &key, &unhex("000000000000004a00000000"));
    let pt = b"Ladies and Gentlemen of the class of '99: If I could offer you only one tip for the future, sunscreen would be it.";
    let mut ct = pt.to_vec();
    s.xor(64, &mut ct);
    let exp = "6e2e359a2568f98041ba0728dd0d6981e97e7aec1d4360c20a27afccfd9fae0bf91b65c5524733ab8f593dabcd62b3571639d624e65152ab8f530c359f0861d807ca0dbf500d6a6156a38e088a22b65e52bc514d16ccf806818ce91ab77937365af90bbf74a35be6b40b8eedf2785e42874d";
    if hex(&ct) != exp {
        return Err("rfc7539 2.4.2 mismatch".into());
    }
    // draft-irtf-cfrg-xchacha 2.2.1 (HChaCha20)
    let h = hchacha(&key, &unhex("000000090000004a0000000031415927"), 10);
    if hex(&h) != "82413b4227b27bfed30e42508a877d73a0f9e4d58a74a853c12ec41326d3ecdc" {
        return Err(format!("hchacha20 mismatch: {}", hex(&h)));
    }
    // draft-strombergson-chacha-test-vectors TC1 (all-zero key and IV), 8/12/20 rounds, block 0
    let z = [0u8; 32];
    let tc1 = [
        (4u32, "3e00ef2f895f40d67f5bb8e81f09a5a12c840ec3ce9a7f3b181be188ef711a1e984ce172b9216f419f445367456d5619314a42a3da86b001387bfdb80e0cfe42"),
        (6, "9bf49a6a0755f953811fce125f2683d50429c3bb49e074147e0089a52eae155f0564f879d27ae3c02ce82834acfa8c793a629f2ca0de6919610be82f411326be"),
        (10, "76b8e0ada0f13d90405d6ae55386bd28bdd219b8a08ded1aa836efcc8b770dc7da41597c5157488d7724e03fb8d84a376a43b8f41518a11cc387b669b2ee6586"),
    ];
    for (dr, exp) in tc1 {
        let mut s = RefStream::new(Layout::Djb, dr, &z, &[0u8; 8]);
        if hex(&s.keystream(0, 64)) != exp {
            return Err(format!("chacha{} TC1 mismatch", dr * 2));
        }
    }
    // XChaCha20 draft A.2 keystream prefix: key 80..9f, nonce 40..57 (counter 0 block)
    let key2: [u8; 32] = core::array::from_fn(|i| 0x80 + i as u8);
    let nonce2: Vec<u8> = (0..24).map(|i| 0x40 + i as u8).collect();
    let mut nonce2m = nonce2.clone();
    nonce2m[23] = 0x58;
    let mut s = RefStream::new(Layout::X, 10, &key2, &nonce2m);
    let ks = s.keystream(64, 16); // A.3.2.1 uses counter 1 for the message
    let pt = b"The dhole (prono";
    let ct: Vec<u8> = ks.iter().zip(pt.iter()).map(|(a, b)| a ^ b).collect();
    if hex(&ct) != "7d0a2e6b7f7c65a236542630294e063b" {
        return Err(format!("xchacha20 A.3.2 mismatch: {}", hex(&ct)));
    }
    Ok(())
}
