//! Reference Threefish-256/512/1024 and Skein 1.3 (simple hash), written from the Skein paper:
//! rotation table R_{d,j}, the *forward* word permutation pi, key schedule with C240 and
//! t2 = t0 ^ t1, a subkey every four rounds and after the last round.

const C240: u64 = 0x1BD1_1BDA_A9FC_1A22;

const R4: [[u32; 2]; 8] = [[14, 16], [52, 57], [23, 40], [5, 37], [25, 33], [46, 12], [58, 22], [32, 32]];
const R8: [[u32; 4]; 8] = [
    [46, 36, 19, 37],
    [33, 27, 14, 42],
    [17, 49, 36, 39],
    [44, 9, 54, 56],
    [39, 30, 34, 24],
    [13, 50, 10, 17],
    [25, 29, 39, 43],
    [8, 35, 56, 22],
];
const R16: [[u32; 8]; 8] = [
    [24, 13, 8, 47, 8, 17, 22, 37],
    [38, 19, 10, 55, 49, 18, 23, 52],
    [33, 4, 51, 13, 34, 41, 59, 17],
    [5, 20, 48, 41, 47, 28, 16, 25],
    [41, 9, 37, 31, 12, 47, 44, 30],
    [16, 34, 56, 51, 4, 53, 42, 41],
    [31, 44, 47, 46, 19, 42, 44, 25],
    [9, 48, 35, 52, 23, 31, 37, 20],
];
// pi(i): output word i of the permutation takes input word PI[i]
const PI4: [usize; 4] = [0, 3, 2, 1];
const PI8: [usize; 8] = [2, 1, 4, 7, 6, 5, 0, 3];
const PI16: [usize; 16] = [0, 9, 2, 13, 6, 11, 4, 15, 10, 7, 12, 3, 14, 5, 8, 1];

fn rot(nw: usize, d: usize, j: usize) -> u32 {
    match nw {
        4 => R4[d % 8][j],
        8 => R8[d % 8][j],
        16 => R16[d % 8][j],
        _ => unreachable!(),
    }
}
fn pi(nw: usize) -> &'static [usize] {
    match nw {
        4 => &PI4,
        8 => &PI8,
        16 => &PI16,
        _ => unreachable!(),
    }
}
fn rounds(nw: usize) -> usize {
    if nw == 16 {
        80
    } else {
        72
    }
}

struct Sched {
    k: Vec<u64>,
    t: [u64; 3],
    nw: usize,
}
impl Sched {
    fn new(key: &[u8], t0: u64, t1: u64) -> Sched {
        let nw = key.len() / 8;
        assert!(nw == 4 || nw == 8 || nw == 16);
        let mut k: Vec<u64> = (0..nw)
            .map(|i| {
                let mut b = [0u8; 8];
                b.copy_from_slice(&key[8 * i..8 * i + 8]);
                u64::from_le_bytes(b)
            })
            .collect();
        let mut kn = C240;
        for x in &k {
            kn ^= x;
        }
        k.push(kn);
        Sched { k, t: [t0, t1, t0 ^ t1], nw }
    }
    fn subkey(&self, s: usize) -> Vec<u64> {
        let nw = self.nw;
        let mut sk: Vec<u64> = (0..nw).map(|i| self.k[(s + i) % (nw + 1)]).collect();
        sk[nw - 3] = sk[nw - 3].wrapping_add(self.t[s % 3]);
        sk[nw - 2] = sk[nw - 2].wrapping_add(self.t[(s + 1) % 3]);
        sk[nw - 1] = sk[nw - 1].wrapping_add(s as u64);
        sk
    }
}

fn words(b: &[u8]) -> Vec<u64> {
    b.chunks(8)
        .map(|c| {
            let mut x = [0u8; 8];
            x.copy_from_slice(c);
            u64::from_le_bytes(x)
        })
        .collect()
}
fn unwords(w: &[u64]) -> Vec<u8> {
    w.iter().flat_map(|x| x.to_le_bytes()).collect()
}

pub fn encrypt(key: &[u8], t0: u64, t1: u64, block: &[u8]) -> Vec<u8> {
    assert_eq!(key.len(), block.len());
    let sc = Sched::new(key, t0, t1);
    let nw = sc.nw;
    let nr = rounds(nw);
    let p = pi(nw);
    let mut v = words(block);
    for d in 0..nr {
        if d % 4 == 0 {
            let sk = sc.subkey(d / 4);
            for i in 0..nw {
                v[i] = v[i].wrapping_add(sk[i]);
            }
        }
        let mut f = vec![0u64; nw];
        for j in 0..nw / 2 {
            let (x0, x1) = (v[2 * j], v[2 * j + 1]);
            let y0 = x0.wrapping_add(x1);
            let y1 = x1.rotate_left(rot(nw, d, j)) ^ y0;
            f[2 * j] = y0;
            f[2 * j + 1] = y1;
        }
        for i in 0..nw {
            v[i] = f[p[i]];
        }
    }
    let sk = sc.subkey(nr / 4);
    for i in 0..nw {
        v[i] = v[i].wrapping_add(sk[i]);
    }
    unwords(&v)
}

/// The inverse permutation, derived step by step from the definition of `encrypt`.
pub fn decrypt(key: &[u8], t0: u64, t1: u64, block: &[u8]) -> Vec<u8> {
    assert_eq!(key.len(), block.len());
    let sc = Sched::new(key, t0, t1);
    let nw = sc.nw;
    let nr = rounds(nw);
    let p = pi(nw);
    let mut v = words(block);
    let sk = sc.subkey(nr / 4);
    for i in 0..nw {
        v[i] = v[i].wrapping_sub(sk[i]);
    }
    for d in (0..nr).rev() {
        // undo the permutation: v[i] = f[p[i]]  =>  f[p[i]] = v[i]
        let mut f = vec![0u64; nw];
        for i in 0..nw {
            f[p[i]] = v[i];
        }
        for j in 0..nw / 2 {
            let (y0, y1) = (f[2 * j], f[2 * j + 1]);
            let x1 = (y1 ^ y0).rotate_right(rot(nw, d, j));
            let x0 = y0.wrapping_sub(x1);
            v[2 * j] = x0;
            v[2 * j + 1] = x1;
        }
        if d % 4 == 0 {
            let sk = sc.subkey(d / 4);
            for i in 0..nw {
                v[i] = v[i].wrapping_sub(sk[i]);
            }
        }
    }
    unwords(&v)
}

// ------------------------------------------------------------------ Skein

const T_FIRST: u128 = 1 << 126;
const T_FINAL: u128 = 1 << 127;
const TYPE_CFG: u128 = 4;
const TYPE_MSG: u128 = 48;
const TYPE_OUT: u128 = 63;

fn ubi_block(g: &[u8], block: &[u8], tweak: u128) -> Vec<u8> {
    let e = encrypt(g, tweak as u64, (tweak >> 64) as u64, block);
    e.iter().zip(block.iter()).map(|(a, b)| a ^ b).collect()
}

fn ubi(g: &[u8], msg: &[u8], typ: u128) -> Vec<u8> {
    let nb = g.len();
    let mut g = g.to_vec();
    let nblocks = if msg.is_empty() { 1 } else { (msg.len() + nb - 1) / nb };
    let mut pos: u128 = 0;
    for i in 0..nblocks {
        let chunk = &msg[(i * nb).min(msg.len())..((i + 1) * nb).min(msg.len())];
        pos += chunk.len() as u128;
        let mut tw = pos | (typ << 120);
        if i == 0 {
            tw |= T_FIRST;
        }
        if i == nblocks - 1 {
            tw |= T_FINAL;
        }
        let mut b = chunk.to_vec();
        b.resize(nb, 0);
        g = ubi_block(&g, &b, tw);
    }
    g
}

/// Incremental reference Skein with a settable byte-position counter (C17).
#[derive(Clone)]
pub struct RefSkein {
    pub nb: usize,
    pub out_bytes: usize,
    g: Vec<u8>,
    /// bytes contained in the message blocks processed so far (the tweak position field)
    pub pos: u128,
    first: bool,
    buf: Vec<u8>, // held-back data: up to one full block
}

impl RefSkein {
    pub fn new(nb: usize, out_bytes: usize) -> RefSkein {
        let mut cfg = Vec::new();
        cfg.extend_from_slice(b"SHA3");
        cfg.extend_from_slice(&1u16.to_le_bytes());
        cfg.extend_from_slice(&[0, 0]);
        cfg.extend_from_slice(&(8 * out_bytes as u64).to_le_bytes());
        cfg.extend_from_slice(&[0u8; 16]);
        let g = ubi(&vec![0u8; nb], &cfg, TYPE_CFG);
        RefSkein { nb, out_bytes, g, pos: 0, first: true, buf: Vec::new() }
    }
    fn process(&mut self, block: &[u8], nbytes: usize, fin: bool) {
        self.pos += nbytes as u128;
        // the position field is 96 bits wide
        let mut tw = (self.pos & ((1u128 << 96) - 1)) | (TYPE_MSG << 120);
        if self.first {
            tw |= T_FIRST;
        }
        if fin {
            tw |= T_FINAL;
        }
        self.g = ubi_block(&self.g, block, tw);
        self.first = false;
    }
    pub fn update(&mut self, data: &[u8]) {
        // the last block is always held back: a block is processed only when more data follows
        let nb = self.nb;
        let mut data = data;
        while !data.is_empty() {
            if self.buf.len() == nb {
                let b = std::mem::take(&mut self.buf);
                self.process(&b, nb, false);
            }
            let n = (nb - self.buf.len()).min(data.len());
            self.buf.extend_from_slice(&data[..n]);
            data = &data[n..];
        }
    }
    pub fn buffered(&self) -> usize {
        self.buf.len()
    }
    pub fn set_counter(&mut self, pos: u128) {
        self.pos = pos;
    }
    pub fn finalize(&self) -> Vec<u8> {
        let mut s = self.clone();
        let n = s.buf.len();
        let mut b = std::mem::take(&mut s.buf);
        b.resize(s.nb, 0);
        s.process(&b, n, true);
        let mut out = Vec::new();
        let mut i = 0u64;
        while out.len() < s.out_bytes {
            out.extend_from_slice(&ubi(&s.g, &i.to_le_bytes(), TYPE_OUT));
            i += 1;
        }
        out.truncate(s.out_bytes);
        out
    }
}

pub fn skein(nb: usize, out_bytes: usize, m: &[u8]) -> Vec<u8> {
    let mut s = RefSkein::new(nb, out_bytes);
    s.update(m);
    s.finalize()
}
