//! Independent reference models (the oracles) and their self-tests against published vectors.
//! A failing self-test makes the run INCONCLUSIVE (harness defect), never a violation.

pub mod blake;
pub mod chacha;
pub mod consts_gen;
pub mod groestl;
pub mod jh;
pub mod threefish;

use crate::prng::{hex, unhex};

/// Parse a `blobby` blob (format of the RustCrypto test-vector files) into records.
pub fn blobby(data: &[u8]) -> Vec<&[u8]> {
    assert!(data.len() >= 7 && &data[..6] == b"blobby");
    let n = match data[6] {
        b'1' => 1,
        b'2' => 2,
        b'4' => 4,
        b'8' => 8,
        _ => panic!("bad blobby header"),
    };
    let mut out = Vec::new();
    let mut d = &data[7..];
    while !d.is_empty() {
        let mut len = 0usize;
        for i in 0..n {
            len |= (d[i] as usize) << (8 * i);
        }
        out.push(&d[n..n + len]);
        d = &d[n + len..];
    }
    out
}

macro_rules! kat {
    ($f:expr) => {
        include_bytes!(concat!(env!("CARGO_MANIFEST_DIR"), "/kat/", $f)) as &[u8]
    };
}

/// (message, digest) pairs of a published KAT file, by hash name (e.g. "Groestl256", "Jh512").
pub fn kat_pairs(name: &str) -> Vec<(&'static [u8], &'static [u8])> {
    let blob: &'static [u8] = match name {
        "Blake224" => kat!("blake224.blb"),
        "Blake256" => kat!("blake256.blb"),
        "Blake384" => kat!("blake384.blb"),
        "Blake512" => kat!("blake512.blb"),
        "Groestl224" => kat!("groestl224.blb"),
        "Groestl256" => kat!("groestl256.blb"),
        "Groestl384" => kat!("groestl384.blb"),
        "Groestl512" => kat!("groestl512.blb"),
        "Jh224" => kat!("ShortMsgKAT_224.blb"),
        "Jh256" => kat!("ShortMsgKAT_256.blb"),
        "Jh384" => kat!("ShortMsgKAT_384.blb"),
        "Jh512" => kat!("ShortMsgKAT_512.blb"),
        "Skein256-32" => kat!("skein256_32.blb"),
        "Skein512-32" => kat!("skein512_32.blb"),
        "Skein1024-32" => kat!("skein1024_32.blb"),
        "Skein256-64" => kat!("skein256_64.blb"),
        "Skein512-64" => kat!("skein512_64.blb"),
        "Skein1024-64" => kat!("skein1024_64.blb"),
        _ => panic!("no KAT file for {}", name),
    };
    blobby(blob).chunks(2).map(|p| (p[0], p[1])).collect()
}

fn msg(n: usize) -> Vec<u8> {
    (0..n).map(|i| ((i * 131 + 7) % 251) as u8).collect()
}

/// Which families to self-test (bit mask) so that slow models are only tested when used.
pub const T_CHACHA: u32 = 1;
pub const T_BLAKE: u32 = 2;
pub const T_SKEIN: u32 = 4;
pub const T_JH: u32 = 8;
pub const T_GROESTL: u32 = 16;
pub const T_ALL: u32 = 31;

/// `limit`: max KAT records per file (Miri runs use a small number).
pub fn selftest(which: u32, limit: usize) -> Result<u64, String> {
    let mut n = 0u64;
    if which & T_CHACHA != 0 {
        chacha::selftest()?;
        n += 7;
    }
    let check_pairs = |name: &str, blob: &[u8], f: &dyn Fn(&[u8]) -> Vec<u8>, limit: usize| -> Result<u64, String> {
        let recs = blobby(blob);
        let mut k = 0;
        for p in recs.chunks(2).take(limit) {
            let d = f(p[0]);
            if d != p[1] {
                return Err(format!("{}: KAT mismatch for message of {} bytes: {} != {}", name, p[0].len(), hex(&d), hex(p[1])));
            }
            k += 1;
        }
        if k == 0 {
            return Err(format!("{}: empty KAT file", name));
        }
        Ok(k)
    };
    if which & T_BLAKE != 0 {
        n += check_pairs("blake224", kat!("blake224.blb"), &|m| blake::blake(224, m), limit)?;
        n += check_pairs("blake256", kat!("blake256.blb"), &|m| blake::blake(256, m), limit)?;
        n += check_pairs("blake384", kat!("blake384.blb"), &|m| blake::blake(384, m), limit)?;
        n += check_pairs("blake512", kat!("blake512.blb"), &|m| blake::blake(512, m), limit)?;
    }
    if which & T_SKEIN != 0 {
        n += check_pairs("skein256_32", kat!("skein256_32.blb"), &|m| threefish::skein(32, 32, m), limit)?;
        n += check_pairs("skein256_64", kat!("skein256_64.blb"), &|m| threefish::skein(32, 64, m), limit)?;
        n += check_pairs("skein512_32", kat!("skein512_32.blb"), &|m| threefish::skein(64, 32, m), limit)?;
        n += check_pairs("skein512_64", kat!("skein512_64.blb"), &|m| threefish::skein(64, 64, m), limit)?;
        n += check_pairs("skein1024_32", kat!("skein1024_32.blb"), &|m| threefish::skein(128, 32, m), limit)?;
        n += check_pairs("skein1024_64", kat!("skein1024_64.blb"), &|m| threefish::skein(128, 64, m), limit)?;
        // Threefish vectors of the Skein NIST submission (zero key/tweak/block; counting key + tweak)
        let tf: [(usize, bool, &str); 6] = [
            (32, false, "84da2a1f8beaee947066ae3e3103f1ad536db1f4a1192495116b9f3ce6133fd8"),
            (32, true, "e0d091ff0eea8fdfc98192e62ed80ad59d865d08588df476657056b5955e97df"),
            (64, false, "b1a2bbc6ef6025bc40eb3822161f36e375d1bb0aee3186fbd19e47c5d479947b7bc2f8586e35f0cff7e7f03084b0b7b1f1ab3961a580a3e97eb41ea14a6d7bbe"),
            (64, true, "e304439626d45a2cb401cad8d636249a6338330eb06d45dd8b36b90e97254779272a0a8d99463504784420ea18c9a725af11dffea10162348927673d5c1caf3d"),
            (128, false, "f05c3d0a3d05b304f785ddc7d1e036015c8aa76e2f217b06c6e1544c0bc1a90df0accb9473c24e0fd54fea68057f43329cb454761d6df5cf7b2e9b3614fbd5a20b2e4760b40603540d82eabc5482c171c832afbe68406bc39500367a592943fa9a5b4a43286ca3c4cf46104b443143d560a4b230488311df4feef7e1dfe8391e"),
            (128, true, "a6654ddbd73cc3b05dd777105aa849bce49372eaaffc5568d254771bab85531c94f780e7ffaae430d5d8af8c70eebbe1760f3b42b737a89cb363490d670314bd8aa41ee63c2e1f45fbd477922f8360b388d6125ea6c7af0ad7056d01796e90c83313f4150a5716b30ed5f569288ae974ce2b4347926fce57de44512177dd7cde"),
        ];
        for (nb, pat, exp) in tf {
            let (key, t0, t1, blk): (Vec<u8>, u64, u64, Vec<u8>) = if pat {
                ((0..nb).map(|i| 0x10 + i as u8).collect(), 0x0706050403020100, 0x0f0e0d0c0b0a0908, (0..nb).map(|i| 0xff - i as u8).collect())
            } else {
                (vec![0; nb], 0, 0, vec![0; nb])
            };
            let c = threefish::encrypt(&key, t0, t1, &blk);
            if hex(&c) != exp {
                return Err(format!("threefish-{} vector mismatch", nb * 8));
            }
            if threefish::decrypt(&key, t0, t1, &c) != blk {
                return Err(format!("threefish-{} reference inverse mismatch", nb * 8));
            }
            n += 2;
        }
        for (nw, t0, t1, exp) in consts_gen::XTF {
            let key = msg(nw * 8);
            let blk: Vec<u8> = msg(nw * 8).into_iter().rev().collect();
            if hex(&threefish::encrypt(&key, t0, t1, &blk)) != exp {
                return Err("threefish cross-model vector mismatch".into());
            }
            n += 1;
        }
    }
    if which & T_JH != 0 {
        for (bits, s, l) in [
            (224u32, kat!("ShortMsgKAT_224.blb"), kat!("LongMsgKAT_224.blb")),
            (256, kat!("ShortMsgKAT_256.blb"), kat!("LongMsgKAT_256.blb")),
            (384, kat!("ShortMsgKAT_384.blb"), kat!("LongMsgKAT_384.blb")),
            (512, kat!("ShortMsgKAT_512.blb"), kat!("LongMsgKAT_512.blb")),
        ] {
            // the JH model is slow: every 5th short KAT and two long ones
            let recs = blobby(s);
            let mut k = 0;
            for p in recs.chunks(2).step_by(5).take(limit) {
                if jh::jh(bits, p[0]) != p[1] {
                    return Err(format!("jh{}: short KAT mismatch at {} bytes", bits, p[0].len()));
                }
                k += 1;
            }
            n += k + check_pairs("jh-long", l, &|m| jh::jh(bits, m), limit.min(2))?;
        }
    }
    if which & T_GROESTL != 0 {
        for (bits, s) in [
            (224u32, kat!("groestl224.blb")),
            (256, kat!("groestl256.blb")),
            (384, kat!("groestl384.blb")),
            (512, kat!("groestl512.blb")),
        ] {
            let recs = blobby(s);
            let mut k = 0;
            for p in recs.chunks(2).step_by(3).take(limit) {
                if groestl::groestl(bits, p[0]) != p[1] {
                    return Err(format!("groestl{}: KAT mismatch at {} bytes", bits, p[0].len()));
                }
                k += 1;
            }
            n += k;
        }
    }
    // cross-model vectors (Python prototype of the same specifications)
    for (i, (alg, par, len, exp)) in consts_gen::XVEC.iter().enumerate() {
        if limit < 1000 && i % 7 != 0 {
            continue;
        }
        let m = msg(*len);
        let got = match *alg {
            "blake" if which & T_BLAKE != 0 => blake::blake(*par, &m),
            "jh" if which & T_JH != 0 => jh::jh(*par, &m),
            "groestl" if which & T_GROESTL != 0 => groestl::groestl(*par, &m),
            "skein256" if which & T_SKEIN != 0 => threefish::skein(32, *par as usize, &m),
            "skein512" if which & T_SKEIN != 0 => threefish::skein(64, *par as usize, &m),
            "skein1024" if which & T_SKEIN != 0 => threefish::skein(128, *par as usize, &m),
            _ => continue,
        };
        if got != unhex(exp) {
            return Err(format!("cross-model vector mismatch: {} {} len {}", alg, par, len));
        }
        n += 1;
    }
    Ok(n)
}
