//! Reference BLAKE-224/256/384/512 (SHA-3 finalist version, unsalted): the G function on sixteen
//! scalar words. Incremental, with a settable bit counter for the fast-forward checks (C17).

use super::consts_gen::{BLAKE_C32, BLAKE_C64, IV224, IV256, IV384, IV512};

const SIGMA: [[usize; 16]; 10] = [
    [0, 1, 2, 3, 4, 5, 6, 7, 8, 9, 10, 11, 12, 13, 14, 15],
    [14, 10, 4, 8, 9, 15, 13, 6, 1, 12, 0, 2, 11, 7, 5, 3],
    [11, 8, 12, 0, 5, 2, 15, 13, 10, 14, 3, 6, 7, 1, 9, 4],
    [7, 9, 3, 1, 13, 12, 11, 14, 2, 6, 5, 10, 4, 0, 15, 8],
    [9, 0, 5, 7, 2, 4, 10, 15, 14, 1, 11, 12, 6, 8, 3, 13],
    [2, 12, 6, 10, 0, 11, 8, 3, 4, 13, 7, 5, 15, 14, 1, 9],
    [12, 5, 1, 15, 14, 13, 4, 10, 0, 7, 6, 3, 9, 2, 8, 11],
    [13, 11, 7, 14, 12, 1, 3, 9, 5, 0, 15, 4, 8, 6, 2, 10],
    [6, 15, 14, 9, 11, 3, 0, 8, 12, 2, 13, 7, 1, 4, 10, 5],
    [10, 2, 8, 4, 7, 6, 1, 5, 15, 11, 9, 14, 3, 12, 13, 0],
];

#[derive(Clone)]
pub struct RefBlake {
    pub bits: u32,
    big: bool,
    h: [u64; 8], // 32-bit variants keep their words in the low halves
    /// message bits absorbed so far (spec counter t), as a 128-bit integer; reduced to the
    /// format's counter width (64 / 128 bits) where it enters compression and padding
    pub t: u128,
    buf: Vec<u8>,
}

fn g32(v: &mut [u32; 16], m: &[u32; 16], r: usize, i: usize, a: usize, b: usize, c: usize, d: usize) {
    let s = &SIGMA[r % 10];
    v[a] = v[a].wrapping_add(v[b]).wrapping_add(m[s[2 * i]] ^ BLAKE_C32[s[2 * i + 1]]);
    v[d] = (v[d] ^ v[a]).rotate_right(16);
    v[c] = v[c].wrapping_add(v[d]);
    v[b] = (v[b] ^ v[c]).rotate_right(12);
    v[a] = v[a].wrapping_add(v[b]).wrapping_add(m[s[2 * i + 1]] ^ BLAKE_C32[s[2 * i]]);
    v[d] = (v[d] ^ v[a]).rotate_right(8);
    v[c] = v[c].wrapping_add(v[d]);
    v[b] = (v[b] ^ v[c]).rotate_right(7);
}

fn g64(v: &mut [u64; 16], m: &[u64; 16], r: usize, i: usize, a: usize, b: usize, c: usize, d: usize) {
    let s = &SIGMA[r % 10];
    v[a] = v[a].wrapping_add(v[b]).wrapping_add(m[s[2 * i]] ^ BLAKE_C64[s[2 * i + 1]]);
    v[d] = (v[d] ^ v[a]).rotate_right(32);
    v[c] = v[c].wrapping_add(v[d]);
    v[b] = (v[b] ^ v[c]).rotate_right(25);
    v[a] = v[a].wrapping_add(v[b]).wrapping_add(m[s[2 * i + 1]] ^ BLAKE_C64[s[2 * i]]);
    v[d] = (v[d] ^ v[a]).rotate_right(16);
    v[c] = v[c].wrapping_add(v[d]);
    v[b] = (v[b] ^ v[c]).rotate_right(11);
}

/// One BLAKE-256-family compression: h (8 words), 64-byte block, 64-bit counter t.
pub fn compress32(h: &mut [u32; 8], block: &[u8], t: u64) {
    let mut m = [0u32; 16];
    for i in 0..16 {
        m[i] = u32::from_be_bytes([block[4 * i], block[4 * i + 1], block[4 * i + 2], block[4 * i + 3]]);
    }
    let mut v = [0u32; 16];
    v[..8].copy_from_slice(h);
    v[8..].copy_from_slice(&BLAKE_C32[..8]);
    let (t0, t1) = (t as u32, (t >> 32) as u32);
    v[12] ^= t0;
    v[13] ^= t0;
    v[14] ^= t1;
    v[15] ^= t1;
    for r in 0..14 {
        g32(&mut v, &m, r, 0, 0, 4, 8, 12);
        g32(&mut v, &m, r, 1, 1, 5, 9, 13);
        g32(&mut v, &m, r, 2, 2, 6, 10, 14);
        g32(&mut v, &m, r, 3, 3, 7, 11, 15);
        g32(&mut v, &m, r, 4, 0, 5, 10, 15);
        g32(&mut v, &m, r, 5, 1, 6, 11, 12);
        g32(&mut v, &m, r, 6, 2, 7, 8, 13);
        g32(&mut v, &m, r, 7, 3, 4, 9, 14);
    }
    for i in 0..8 {
        h[i] ^= v[i] ^ v[i + 8];
    }
}

/// One BLAKE-512-family compression: 128-byte block, 128-bit counter t.
pub fn compress64(h: &mut [u64; 8], block: &[u8], t: u128) {
    let mut m = [0u64; 16];
    for i in 0..16 {
        let mut b = [0u8; 8];
        b.copy_from_slice(&block[8 * i..8 * i + 8]);
        m[i] = u64::from_be_bytes(b);
    }
    let mut v = [0u64; 16];
    v[..8].copy_from_slice(h);
    v[8..].copy_from_slice(&BLAKE_C64[..8]);
    let (t0, t1) = (t as u64, (t >> 64) as u64);
    v[12] ^= t0;
    v[13] ^= t0;
    v[14] ^= t1;
    v[15] ^= t1;
    for r in 0..16 {
        g64(&mut v, &m, r, 0, 0, 4, 8, 12);
        g64(&mut v, &m, r, 1, 1, 5, 9, 13);
        g64(&mut v, &m, r, 2, 2, 6, 10, 14);
        g64(&mut v, &m, r, 3, 3, 7, 11, 15);
        g64(&mut v, &m, r, 4, 0, 5, 10, 15);
        g64(&mut v, &m, r, 5, 1, 6, 11, 12);
        g64(&mut v, &m, r, 6, 2, 7, 8, 13);
        g64(&mut v, &m, r, 7, 3, 4, 9, 14);
    }
    for i in 0..8 {
        h[i] ^= v[i] ^ v[i + 8];
    }
}

impl RefBlake {
    pub fn new(bits: u32) -> RefBlake {
        let big = bits > 256;
        let mut h = [0u64; 8];
        match bits {
            224 => (0..8).for_each(|i| h[i] = IV224[i] as u64),
            256 => (0..8).for_each(|i| h[i] = IV256[i] as u64),
            384 => h = IV384,
            512 => h = IV512,
            _ => panic!("bad BLAKE size"),
        }
        RefBlake { bits, big, h, t: 0, buf: Vec::new() }
    }
    pub fn block_size(&self) -> usize {
        if self.big {
            128
        } else {
            64
        }
    }
    fn compress(&mut self, block: &[u8], t: u128) {
        if self.big {
            compress64(&mut self.h, block, t);
        } else {
            let mut h: [u32; 8] = core::array::from_fn(|i| self.h[i] as u32);
            compress32(&mut h, block, t as u64);
            for i in 0..8 {
                self.h[i] = h[i] as u64;
            }
        }
    }
    pub fn update(&mut self, data: &[u8]) {
        let bs = self.block_size();
        let mut data = data;
        if !self.buf.is_empty() {
            let n = (bs - self.buf.len()).min(data.len());
            self.buf.extend_from_slice(&data[..n]);
            data = &data[n..];
            if self.buf.len() == bs {
                let b = std::mem::take(&mut self.buf);
                self.t = self.t.wrapping_add(8 * bs as u128);
                self.compress(&b, self.t);
            }
        }
        while data.len() >= bs {
            self.t = self.t.wrapping_add(8 * bs as u128);
            let t = self.t;
            self.compress(&data[..bs], t);
            data = &data[bs..];
        }
        self.buf.extend_from_slice(data);
    }
    /// Pretend that exactly `bits` message bits were absorbed before this point (only valid
    /// while no partial block is buffered).
    pub fn set_counter(&mut self, bits: u128) {
        assert!(self.buf.is_empty());
        self.t = bits;
    }
    pub fn finalize(&self) -> Vec<u8> {
        let mut s = self.clone();
        let bs = s.block_size();
        let lenbytes = if s.big { 16 } else { 8 };
        let total_bits = s.t.wrapping_add(8 * s.buf.len() as u128);
        let total_bits = if s.big { total_bits } else { total_bits & (u64::MAX as u128) };
        let full = s.bits == 256 || s.bits == 512;
        let nmsg = s.buf.len();
        let mut p = std::mem::take(&mut s.buf);
        p.push(0x80);
        while (p.len() + lenbytes) % bs != 0 {
            p.push(0);
        }
        if full {
            let l = p.len();
            p[l - 1] |= 0x01;
        }
        if s.big {
            p.extend_from_slice(&total_bits.to_be_bytes());
        } else {
            p.extend_from_slice(&(total_bits as u64).to_be_bytes());
        }
        let nblk = p.len() / bs;
        for i in 0..nblk {
            // counter = message bits up to and including this block; 0 if the block has none
            let t = if i == 0 && nmsg > 0 { total_bits } else { 0 };
            let blk = p[i * bs..(i + 1) * bs].to_vec();
            s.compress(&blk, t);
        }
        let mut out = Vec::new();
        for i in 0..8 {
            if s.big {
                out.extend_from_slice(&s.h[i].to_be_bytes());
            } else {
                out.extend_from_slice(&(s.h[i] as u32).to_be_bytes());
            }
        }
        out.truncate(s.bits as usize / 8);
        out
    }
}

pub fn blake(bits: u32, m: &[u8]) -> Vec<u8> {
    let mut s = RefBlake::new(bits);
    s.update(m);
    s.finalize()
}
