//! Buffers that abut unmapped memory: `[PROT_NONE page][data pages][PROT_NONE page]`, obtained
//! with mmap/mprotect through `extern "C"` (no libc crate). A single byte read or written before
//! the first or after the last byte of the slice faults (SIGSEGV), and so does a write to a
//! buffer that was sealed read-only. Under Miri / ASan (no raw mmap wanted) the same interface
//! is backed by exact-size heap allocations, whose bounds those tools check themselves.

#[cfg(not(miri))]
mod sys {
    use core::ffi::c_void;
    extern "C" {
        pub fn mmap(addr: *mut c_void, len: usize, prot: i32, flags: i32, fd: i32, off: i64) -> *mut c_void;
        pub fn mprotect(addr: *mut c_void, len: usize, prot: i32) -> i32;
        pub fn munmap(addr: *mut c_void, len: usize) -> i32;
        pub fn memfd_create(name: *const u8, flags: u32) -> i32;
        pub fn ftruncate(fd: i32, len: i64) -> i32;
        pub fn write(fd: i32, buf: *const c_void, n: usize) -> isize;
        pub fn close(fd: i32) -> i32;
    }
    pub const MAP_SHARED: i32 = 0x01;
    pub const MAP_FIXED: i32 = 0x10;
    pub const MAP_NORESERVE: i32 = 0x4000;
    pub const PROT_NONE: i32 = 0;
    pub const PROT_READ: i32 = 1;
    pub const PROT_WRITE: i32 = 2;
    pub const MAP_PRIVATE_ANON: i32 = 0x22;
}

pub const PAGE: usize = 4096;

#[derive(Clone, Copy, PartialEq, Eq, Debug)]
pub enum Place {
    /// the slice ends at the last mapped byte (start alignment = -len mod 64 for free)
    Tail,
    /// the slice starts at the first mapped byte
    Head,
    /// the slice lies `off` bytes into the mapping, surrounded by canary bytes
    Interior(usize),
}

/// Whether real guard pages are in use (false under Miri and when `CCV_HEAP_PLACEMENT=1`,
/// which the ASan / valgrind configurations set so that the tool's own red zones do the work).
pub fn use_mmap() -> bool {
    #[cfg(miri)]
    {
        false
    }
    #[cfg(not(miri))]
    {
        std::env::var("CCV_HEAP_PLACEMENT").map(|v| v != "1").unwrap_or(true)
    }
}

pub struct GuardBuf {
    base: *mut u8,
    maplen: usize,
    ptr: *mut u8,
    len: usize,
    heap: Option<Vec<u8>>,
    lo: usize, // canary extent before / after (Interior only)
    hi: usize,
}

const CANARY: u8 = 0xC7;

impl GuardBuf {
    pub fn new(content: &[u8], place: Place) -> GuardBuf {
        let len = content.len();
        if !use_mmap() {
            // exact-size heap allocation; Interior keeps `off` canary bytes in front and 29 behind
            let (lo, hi) = match place {
                Place::Tail | Place::Head => (0, 0),
                Place::Interior(off) => (off, 29),
            };
            let mut v = Vec::with_capacity(lo + len + hi);
            v.extend(std::iter::repeat(CANARY).take(lo));
            v.extend_from_slice(content);
            v.extend(std::iter::repeat(CANARY).take(hi));
            let ptr = unsafe { v.as_mut_ptr().add(lo) };
            return GuardBuf { base: core::ptr::null_mut(), maplen: 0, ptr, len, heap: Some(v), lo, hi };
        }
        #[cfg(not(miri))]
        unsafe {
            let data_pages = (len + 128 + PAGE - 1) / PAGE + 1;
            let maplen = (data_pages + 2) * PAGE;
            let base = sys::mmap(core::ptr::null_mut(), maplen, sys::PROT_READ | sys::PROT_WRITE, sys::MAP_PRIVATE_ANON, -1, 0) as *mut u8;
            assert!(!base.is_null() && base as isize != -1, "mmap failed");
            assert_eq!(sys::mprotect(base as *mut _, PAGE, sys::PROT_NONE), 0);
            assert_eq!(sys::mprotect(base.add(maplen - PAGE) as *mut _, PAGE, sys::PROT_NONE), 0);
            let first = base.add(PAGE);
            let end = base.add(maplen - PAGE);
            core::ptr::write_bytes(first, CANARY, maplen - 2 * PAGE);
            let (ptr, lo, hi) = match place {
                // the mapped bytes on the near side of the slice are canaries as well
                Place::Tail => (end.sub(len), 64, 0),
                Place::Head => (first, 0, 64),
                Place::Interior(off) => (first.add(off), off, 64),
            };
            core::ptr::copy_nonoverlapping(content.as_ptr(), ptr, len);
            GuardBuf { base, maplen, ptr, len, heap: None, lo, hi }
        }
        #[cfg(miri)]
        unreachable!()
    }

    /// Make the data pages read-only (inputs must never be written).
    pub fn seal(&mut self) {
        #[cfg(not(miri))]
        if self.heap.is_none() {
            unsafe {
                assert_eq!(sys::mprotect(self.base.add(PAGE) as *mut _, self.maplen - 2 * PAGE, sys::PROT_READ), 0);
            }
        }
    }

    pub fn slice(&self) -> &[u8] {
        unsafe { core::slice::from_raw_parts(self.ptr, self.len) }
    }
    pub fn slice_mut(&mut self) -> &mut [u8] {
        unsafe { core::slice::from_raw_parts_mut(self.ptr, self.len) }
    }
    pub fn addr(&self) -> usize {
        self.ptr as usize
    }
    /// Canary bytes around an interior slice are intact.
    pub fn canaries_ok(&self) -> bool {
        unsafe {
            let before = core::slice::from_raw_parts(self.ptr.sub(self.lo), self.lo);
            let after = core::slice::from_raw_parts(self.ptr.add(self.len), self.hi);
            before.iter().all(|&b| b == CANARY) && after.iter().all(|&b| b == CANARY)
        }
    }
}

impl Drop for GuardBuf {
    fn drop(&mut self) {
        #[cfg(not(miri))]
        if self.heap.is_none() && !self.base.is_null() {
            unsafe {
                sys::munmap(self.base as *mut _, self.maplen);
            }
        }
    }
}

/// A read-only window of `total` bytes that repeats one `pattern` (a whole number of pages) over
/// and over: one small in-memory file mapped again and again at consecutive addresses, so a slice
/// of many GiB costs one pattern of physical memory. Used to pass a single `update()` call more
/// than 2^32 bytes (C17). Followed by a PROT_NONE page.
#[cfg(not(miri))]
pub struct RingWindow {
    base: *mut u8,
    maplen: usize,
    total: usize,
}

#[cfg(not(miri))]
impl RingWindow {
    pub fn new(pattern: &[u8], total: usize) -> Result<RingWindow, String> {
        let period = pattern.len();
        assert!(period > 0 && period % PAGE == 0);
        let n = (total + period - 1) / period;
        let maplen = n * period + PAGE;
        unsafe {
            let fd = sys::memfd_create(b"ccv-ring\0".as_ptr(), 0);
            if fd < 0 {
                return Err("memfd_create failed".into());
            }
            if sys::ftruncate(fd, period as i64) != 0 {
                sys::close(fd);
                return Err("ftruncate failed".into());
            }
            let mut off = 0;
            while off < period {
                let w = sys::write(fd, pattern[off..].as_ptr() as *const _, period - off);
                if w <= 0 {
                    sys::close(fd);
                    return Err("write to memfd failed".into());
                }
                off += w as usize;
            }
            let base = sys::mmap(core::ptr::null_mut(), maplen, sys::PROT_NONE, sys::MAP_PRIVATE_ANON | sys::MAP_NORESERVE, -1, 0) as *mut u8;
            if base.is_null() || base as isize == -1 {
                sys::close(fd);
                return Err("reserving the address range failed".into());
            }
            for i in 0..n {
                let at = base.add(i * period);
                let p = sys::mmap(at as *mut _, period, sys::PROT_READ, sys::MAP_SHARED | sys::MAP_FIXED, fd, 0) as *mut u8;
                if p != at {
                    sys::munmap(base as *mut _, maplen);
                    sys::close(fd);
                    return Err(format!("mapping copy {} of the pattern failed", i));
                }
            }
            sys::close(fd);
            Ok(RingWindow { base, maplen, total })
        }
    }
    pub fn slice(&self) -> &[u8] {
        unsafe { core::slice::from_raw_parts(self.base, self.total) }
    }
}

#[cfg(not(miri))]
impl Drop for RingWindow {
    fn drop(&mut self) {
        unsafe {
            sys::munmap(self.base as *mut _, self.maplen);
        }
    }
}
