//! ccv <PROPERTY> [k=v ...]
//!   shard=i/n seed=S budget=N tier=quick|thorough out=PATH     run one shard of a workload
//!   case="k=v k=v ..."                                          replay exactly one case
//!   selftest                                                    only run the reference-model self-tests
//! Exit status: 0 no violation observed, 1 violation(s), 3 inconclusive (self-test failure).

use ccv::log::Log;
use ccv::mon::{self, Ctx};

fn main() {
    let args: Vec<String> = std::env::args().skip(1).collect();
    if args.is_empty() {
        eprintln!("usage: ccv <PROPERTY|selftest> [k=v ...]");
        std::process::exit(2);
    }
    if args[0] == "noop" {
        return;
    }
    if args[0] == "selftest" {
        match ccv::refmodel::selftest(ccv::refmodel::T_ALL, 100000) {
            Ok(n) => {
                println!("selftest ok: {} vectors", n);
                return;
            }
            Err(e) => {
                println!("selftest FAILED: {}", e);
                std::process::exit(3);
            }
        }
    }
    let mut kv: Vec<(String, String)> = Vec::new();
    for a in &args[1..] {
        if let Some((k, v)) = a.split_once('=') {
            kv.push((k.to_string(), v.to_string()));
        }
    }
    let get = |k: &str| kv.iter().find(|(a, _)| a == k).map(|(_, v)| v.clone());
    let (shard, nshards) = match get("shard") {
        Some(s) => {
            let (a, b) = s.split_once('/').expect("shard=i/n");
            (a.parse().unwrap(), b.parse().unwrap())
        }
        None => (0, 1),
    };
    let seed = get("seed").map(|s| s.parse().unwrap()).unwrap_or(1);
    let budget = get("budget").map(|s| s.parse().unwrap()).unwrap_or(1000);
    let thorough = get("tier").map(|s| s == "thorough").unwrap_or(false);
    let out = get("out");
    ccv::log::install_panic_hook();
    let log = Log::new(out.as_deref());
    let mut cx = Ctx { prop: args[0].clone(), shard, nshards, seed, budget, thorough, log, args: kv.clone() };
    if let Some(case) = get("case") {
        mon::replay(&mut cx, &case);
    } else {
        mon::run(&mut cx);
    }
    let v = cx.log.finish();
    std::process::exit(if v > 0 { 1 } else { 0 });
}
