//! Thin, uniform wrappers over cryptocorrosion's *public* API (plus the verification hooks).
//! Nothing here reads private or incidental-public fields of the implementation.

use cipher::{NewCipher, StreamCipher, StreamCipherSeek};
use digest::generic_array::typenum as tn;
use digest::{Digest, FixedOutput, Reset, Update};

// ------------------------------------------------------------------ backends

/// Force the ppv-lite86 run-time dispatch to a backend level (hook H1). No-op where the x86
/// backend is compiled out (portable build, Miri) or where dispatch is at compile time.
pub fn force_backend(level: u8) {
    #[cfg(all(not(feature = "portable"), not(miri), feature = "std"))]
    ppv_lite86::x86_64::verif_force_backend(level);
    let _ = level;
}
pub const BACKEND_NAMES: [&str; 6] = ["auto", "sse2", "ssse3", "sse41", "avx", "avx2"];

/// Name of the build configuration as far as backend selection is concerned.
pub fn build_kind() -> &'static str {
    if cfg!(all(miri, target_endian = "big")) {
        "miri-generic-be"
    } else if cfg!(miri) {
        "miri-generic"
    } else if cfg!(feature = "portable") {
        "portable"
    } else if cfg!(all(feature = "std", target_feature = "avx2")) {
        // run-time dispatch compiled for the CPU of this host (-Ctarget-cpu=native)
        "std-native"
    } else if cfg!(feature = "std") {
        "std-dispatch"
    } else if cfg!(target_feature = "avx2") {
        "nostd-avx2"
    } else if cfg!(target_feature = "avx") {
        "nostd-avx"
    } else if cfg!(target_feature = "sse4.1") {
        "nostd-sse41"
    } else if cfg!(target_feature = "ssse3") {
        "nostd-ssse3"
    } else {
        "nostd-sse2"
    }
}
/// Backend levels that make sense in this build: 0..=5 with run-time dispatch, else just 0.
pub fn backend_levels() -> &'static [u8] {
    if cfg!(all(not(feature = "portable"), not(miri), feature = "std")) {
        &[0, 1, 2, 3, 4, 5]
    } else {
        &[0]
    }
}
pub fn profile() -> &'static str {
    if cfg!(debug_assertions) {
        "dbg"
    } else {
        "rel"
    }
}

// ------------------------------------------------------------------ stream ciphers

pub const CIPHERS: [&str; 7] = ["ChaCha8", "ChaCha12", "ChaCha20", "Ietf", "XChaCha8", "XChaCha12", "XChaCha20"];

pub fn cipher_params(name: &str) -> (crate::refmodel::chacha::Layout, u32, usize) {
    use crate::refmodel::chacha::Layout::*;
    match name {
        "ChaCha8" => (Djb, 4, 8),
        "ChaCha12" => (Djb, 6, 8),
        "ChaCha20" => (Djb, 10, 8),
        "Ietf" => (Ietf, 10, 12),
        "XChaCha8" => (X, 4, 24),
        "XChaCha12" => (X, 6, 24),
        "XChaCha20" => (X, 10, 24),
        _ => panic!("unknown cipher {}", name),
    }
}

#[derive(Clone, Copy, Debug, PartialEq, Eq)]
pub enum SeekTy {
    U8,
    U16,
    U32,
    U64,
    U128,
    Usize,
    I32,
}
pub const SEEK_TYS: [SeekTy; 7] = [SeekTy::U8, SeekTy::U16, SeekTy::U32, SeekTy::U64, SeekTy::U128, SeekTy::Usize, SeekTy::I32];
impl SeekTy {
    pub fn name(self) -> &'static str {
        match self {
            SeekTy::U8 => "u8",
            SeekTy::U16 => "u16",
            SeekTy::U32 => "u32",
            SeekTy::U64 => "u64",
            SeekTy::U128 => "u128",
            SeekTy::Usize => "usize",
            SeekTy::I32 => "i32",
        }
    }
    pub fn from_name(s: &str) -> SeekTy {
        *SEEK_TYS.iter().find(|t| t.name() == s).expect("seek type")
    }
    /// largest value of the type, as u128
    pub fn max(self) -> u128 {
        match self {
            SeekTy::U8 => u8::MAX as u128,
            SeekTy::U16 => u16::MAX as u128,
            SeekTy::U32 => u32::MAX as u128,
            SeekTy::U64 | SeekTy::Usize => u64::MAX as u128,
            SeekTy::U128 => u128::MAX,
            SeekTy::I32 => i32::MAX as u128,
        }
    }
}

pub trait DynCipher {
    fn try_apply(&mut self, data: &mut [u8]) -> Result<(), ()>;
    /// the provided (panicking) trait methods: only to be called where the model says they succeed
    fn apply_infallible(&mut self, data: &mut [u8]);
    fn seek_infallible_u64(&mut self, v: u64);
    fn pos_infallible_u128(&self) -> u128;
    /// `neg`: for i32 only, seek to -(v) instead of v.
    fn try_seek(&mut self, ty: SeekTy, v: u128, neg: bool) -> Result<(), ()>;
    fn try_pos(&self, ty: SeekTy) -> Result<i128, ()>;
    /// a copy of the public `state` field (the only way to duplicate a cipher mid-stream)
    fn snapshot(&self) -> Box<dyn core::any::Any>;
    /// put a snapshot back, through `Clone::clone_from` or by assigning a fresh clone
    fn restore(&mut self, s: &dyn core::any::Any, via_clone_from: bool);
}

fn snap_any<T: Clone + 'static>(t: &T) -> Box<dyn core::any::Any> {
    Box::new(t.clone())
}
fn restore_any<T: Clone + 'static>(t: &mut T, s: &dyn core::any::Any, via_clone_from: bool) {
    let s = s.downcast_ref::<T>().expect("snapshot of the same cipher type");
    if via_clone_from {
        t.clone_from(s)
    } else {
        *t = s.clone()
    }
}

macro_rules! impl_dyn_cipher {
    ($t:ty) => {
        impl DynCipher for $t {
            fn try_apply(&mut self, data: &mut [u8]) -> Result<(), ()> {
                StreamCipher::try_apply_keystream(self, data).map_err(|_| ())
            }
            fn apply_infallible(&mut self, data: &mut [u8]) {
                StreamCipher::apply_keystream(self, data)
            }
            fn seek_infallible_u64(&mut self, v: u64) {
                StreamCipherSeek::seek(self, v)
            }
            fn pos_infallible_u128(&self) -> u128 {
                StreamCipherSeek::current_pos::<u128>(self)
            }
            fn try_seek(&mut self, ty: SeekTy, v: u128, neg: bool) -> Result<(), ()> {
                match ty {
                    SeekTy::U8 => StreamCipherSeek::try_seek(self, v as u8),
                    SeekTy::U16 => StreamCipherSeek::try_seek(self, v as u16),
                    SeekTy::U32 => StreamCipherSeek::try_seek(self, v as u32),
                    SeekTy::U64 => StreamCipherSeek::try_seek(self, v as u64),
                    SeekTy::U128 => StreamCipherSeek::try_seek(self, v),
                    SeekTy::Usize => StreamCipherSeek::try_seek(self, v as usize),
                    SeekTy::I32 => StreamCipherSeek::try_seek(self, if neg { -(v as i32) } else { v as i32 }),
                }
                .map_err(|_| ())
            }
            fn snapshot(&self) -> Box<dyn core::any::Any> {
                snap_any(&self.state)
            }
            fn restore(&mut self, s: &dyn core::any::Any, via_clone_from: bool) {
                restore_any(&mut self.state, s, via_clone_from)
            }
            fn try_pos(&self, ty: SeekTy) -> Result<i128, ()> {
                match ty {
                    SeekTy::U8 => StreamCipherSeek::try_current_pos::<u8>(self).map(|x| x as i128),
                    SeekTy::U16 => StreamCipherSeek::try_current_pos::<u16>(self).map(|x| x as i128),
                    SeekTy::U32 => StreamCipherSeek::try_current_pos::<u32>(self).map(|x| x as i128),
                    SeekTy::U64 => StreamCipherSeek::try_current_pos::<u64>(self).map(|x| x as i128),
                    SeekTy::U128 => StreamCipherSeek::try_current_pos::<u128>(self).map(|x| x as i128),
                    SeekTy::Usize => StreamCipherSeek::try_current_pos::<usize>(self).map(|x| x as i128),
                    SeekTy::I32 => StreamCipherSeek::try_current_pos::<i32>(self).map(|x| x as i128),
                }
                .map_err(|_| ())
            }
        }
    };
}
impl_dyn_cipher!(c2_chacha::ChaCha8);
impl_dyn_cipher!(c2_chacha::ChaCha12);
impl_dyn_cipher!(c2_chacha::ChaCha20);
impl_dyn_cipher!(c2_chacha::Ietf);
impl_dyn_cipher!(c2_chacha::XChaCha8);
impl_dyn_cipher!(c2_chacha::XChaCha12);
impl_dyn_cipher!(c2_chacha::XChaCha20);

pub fn new_cipher(name: &str, key: &[u8; 32], nonce: &[u8]) -> Box<dyn DynCipher + Send> {
    use cipher::generic_array::GenericArray as GA;
    // key and nonce are handed over from seeded byte offsets inside a larger buffer (as if cut
    // out of a packet), so their addresses are not word-aligned in general
    #[repr(align(16))]
    struct Al([u8; 96]);
    let mut b = Al([0; 96]);
    let (ko, no) = ((key[31] & 7) as usize, 48 + (key[30] & 7) as usize);
    b.0[ko..ko + 32].copy_from_slice(key);
    b.0[no..no + nonce.len()].copy_from_slice(nonce);
    let key: &[u8; 32] = (&b.0[ko..ko + 32]).try_into().unwrap();
    let nonce = &b.0[no..no + nonce.len()];
    // half of the instances (chosen by the key material) are built through new_from_slices
    if key[0] & 1 == 1 {
        macro_rules! nfs {
            ($t:ty) => {
                Box::new(<$t as NewCipher>::new_from_slices(&key[..], nonce).expect("new_from_slices with correct lengths")) as Box<dyn DynCipher + Send>
            };
        }
        return match name {
            "ChaCha8" => nfs!(c2_chacha::ChaCha8),
            "ChaCha12" => nfs!(c2_chacha::ChaCha12),
            "ChaCha20" => nfs!(c2_chacha::ChaCha20),
            "Ietf" => nfs!(c2_chacha::Ietf),
            "XChaCha8" => nfs!(c2_chacha::XChaCha8),
            "XChaCha12" => nfs!(c2_chacha::XChaCha12),
            "XChaCha20" => nfs!(c2_chacha::XChaCha20),
            _ => panic!("unknown cipher {}", name),
        };
    }
    let k = GA::from_slice(key);
    match name {
        "ChaCha8" => Box::new(c2_chacha::ChaCha8::new(k, GA::from_slice(nonce))),
        "ChaCha12" => Box::new(c2_chacha::ChaCha12::new(k, GA::from_slice(nonce))),
        "ChaCha20" => Box::new(c2_chacha::ChaCha20::new(k, GA::from_slice(nonce))),
        "Ietf" => Box::new(c2_chacha::Ietf::new(k, GA::from_slice(nonce))),
        "XChaCha8" => Box::new(c2_chacha::XChaCha8::new(k, GA::from_slice(nonce))),
        "XChaCha12" => Box::new(c2_chacha::XChaCha12::new(k, GA::from_slice(nonce))),
        "XChaCha20" => Box::new(c2_chacha::XChaCha20::new(k, GA::from_slice(nonce))),
        _ => panic!("unknown cipher {}", name),
    }
}

// ------------------------------------------------------------------ hashes

pub trait DynHash {
    fn update(&mut self, data: &[u8]);
    /// `Update::chain` (by-value update)
    fn chain_box(self: Box<Self>, data: &[u8]) -> Box<dyn DynHash>;
    /// `DynDigest::finalize_reset` (in-place finalize + reset through the object-safe trait)
    fn dyn_finalize_reset(&mut self) -> Vec<u8>;
    /// `Digest::finalize_reset` (finalizes a clone, resets the original)
    fn digest_finalize_reset(&mut self) -> Vec<u8>;
    fn finalize_reset(&mut self) -> Vec<u8>;
    fn finalize_box(self: Box<Self>) -> Vec<u8>;
    /// `FixedOutput::finalize_into_reset` writing the digest into caller-provided memory
    /// (`out.len()` must be the output size).
    fn finalize_into_slice(&mut self, out: &mut [u8]);
    fn reset(&mut self);
    fn box_clone(&self) -> Box<dyn DynHash>;
    /// `Clone::clone_from` onto a live instance of the same type
    fn clone_from_dyn(&mut self, src: &dyn DynHash);
    fn as_any(&self) -> &dyn core::any::Any;
    fn counter(&self) -> u128;
    fn set_counter(&mut self, v: u128);
}

macro_rules! impl_dyn_hash {
    ($t:ty) => {
        impl DynHash for $t {
            fn update(&mut self, data: &[u8]) {
                Update::update(self, data)
            }
            fn chain_box(self: Box<Self>, data: &[u8]) -> Box<dyn DynHash> {
                Box::new(Update::chain(*self, data))
            }
            fn dyn_finalize_reset(&mut self) -> Vec<u8> {
                digest::DynDigest::finalize_reset(self).to_vec()
            }
            fn digest_finalize_reset(&mut self) -> Vec<u8> {
                Digest::finalize_reset(self).to_vec()
            }
            fn finalize_reset(&mut self) -> Vec<u8> {
                FixedOutput::finalize_fixed_reset(self).to_vec()
            }
            fn finalize_box(self: Box<Self>) -> Vec<u8> {
                FixedOutput::finalize_fixed(*self).to_vec()
            }
            fn finalize_into_slice(&mut self, out: &mut [u8]) {
                FixedOutput::finalize_into_reset(self, digest::generic_array::GenericArray::from_mut_slice(out))
            }
            fn reset(&mut self) {
                Reset::reset(self)
            }
            fn box_clone(&self) -> Box<dyn DynHash> {
                Box::new(self.clone())
            }
            fn clone_from_dyn(&mut self, src: &dyn DynHash) {
                let src = src.as_any().downcast_ref::<$t>().expect("clone_from between instances of one type");
                Clone::clone_from(self, src)
            }
            fn as_any(&self) -> &dyn core::any::Any {
                self
            }
            fn counter(&self) -> u128 {
                self.verif_counter()
            }
            fn set_counter(&mut self, v: u128) {
                self.verif_set_counter(v)
            }
        }
    };
}
impl_dyn_hash!(blake_hash::Blake224);
impl_dyn_hash!(blake_hash::Blake256);
impl_dyn_hash!(blake_hash::Blake384);
impl_dyn_hash!(blake_hash::Blake512);
#[cfg(target_arch = "x86_64")]
impl_dyn_hash!(groestl_aesni::Groestl224);
#[cfg(target_arch = "x86_64")]
impl_dyn_hash!(groestl_aesni::Groestl256);
#[cfg(target_arch = "x86_64")]
impl_dyn_hash!(groestl_aesni::Groestl384);
#[cfg(target_arch = "x86_64")]
impl_dyn_hash!(groestl_aesni::Groestl512);
impl_dyn_hash!(jh_x86_64::Jh224);
impl_dyn_hash!(jh_x86_64::Jh256);
impl_dyn_hash!(jh_x86_64::Jh384);
impl_dyn_hash!(jh_x86_64::Jh512);

/// Output sizes (bytes) for which Skein types are instantiated.
pub const SKEIN_N: [usize; 51] = [
    1, 2, 3, 5, 6, 7, 8, 13, 16, 20, 22, 24, 28, 31, 32, 33, 40, 48, 63, 64, 65, 72, 96, 100, 127, 128, 129, 160, 200, 255, 256, 257, 288, 300, 320, 384, 511, 512, 513, 544, 576, 1000, 1023, 1024, 1025, 4096, 8193, 65535, 65536, 65568, 65600,
];

macro_rules! skein_menu {
    ($($n:literal => $u:ty),*) => {
        $(
            impl_dyn_hash!(skein_hash::Skein256<$u>);
            impl_dyn_hash!(skein_hash::Skein512<$u>);
            impl_dyn_hash!(skein_hash::Skein1024<$u>);
        )*
        fn new_skein(state_bytes: usize, n: usize) -> Box<dyn DynHash + Send> {
            match (state_bytes, n) {
                $(
                    (32, $n) => Box::new(<skein_hash::Skein256<$u> as Default>::default()),
                    (64, $n) => Box::new(<skein_hash::Skein512<$u> as Default>::default()),
                    (128, $n) => Box::new(<skein_hash::Skein1024<$u> as Default>::default()),
                )*
                _ => panic!("Skein{}<{}> is not instantiated", state_bytes * 8, n),
            }
        }
        fn skein_oneshot(state_bytes: usize, n: usize, m: &[u8]) -> Vec<u8> {
            match (state_bytes, n) {
                $(
                    (32, $n) => <skein_hash::Skein256<$u>>::digest(m).to_vec(),
                    (64, $n) => <skein_hash::Skein512<$u>>::digest(m).to_vec(),
                    (128, $n) => <skein_hash::Skein1024<$u>>::digest(m).to_vec(),
                )*
                _ => panic!("Skein{}<{}> is not instantiated", state_bytes * 8, n),
            }
        }
    };
}
skein_menu!(1 => tn::U1,
    2 => tn::U2,
    3 => tn::U3,
    5 => tn::U5,
    6 => tn::U6,
    7 => tn::U7,
    8 => tn::U8,
    13 => tn::U13,
    16 => tn::U16,
    20 => tn::U20,
    22 => tn::U22,
    24 => tn::U24,
    28 => tn::U28,
    31 => tn::U31,
    40 => tn::U40,
    72 => tn::U72,
    32 => tn::U32,
    33 => tn::U33,
    48 => tn::U48,
    63 => tn::U63,
    64 => tn::U64,
    65 => tn::U65,
    96 => tn::U96,
    100 => tn::U100,
    127 => tn::U127,
    128 => tn::U128,
    129 => tn::U129,
    160 => tn::U160,
    200 => tn::U200,
    256 => tn::U256,
    257 => tn::U257,
    300 => tn::U300,
    512 => tn::U512,
    1000 => tn::U1000,
    255 => tn::U255,
    288 => tn::UInt<tn::UInt<tn::UInt<tn::UInt<tn::UInt<tn::UInt<tn::UInt<tn::UInt<tn::UInt<tn::UTerm, tn::B1>, tn::B0>, tn::B0>, tn::B1>, tn::B0>, tn::B0>, tn::B0>, tn::B0>, tn::B0>,
    320 => tn::UInt<tn::UInt<tn::UInt<tn::UInt<tn::UInt<tn::UInt<tn::UInt<tn::UInt<tn::UInt<tn::UTerm, tn::B1>, tn::B0>, tn::B1>, tn::B0>, tn::B0>, tn::B0>, tn::B0>, tn::B0>, tn::B0>,
    384 => tn::U384,
    511 => tn::U511,
    513 => tn::U513,
    544 => tn::UInt<tn::UInt<tn::UInt<tn::UInt<tn::UInt<tn::UInt<tn::UInt<tn::UInt<tn::UInt<tn::UInt<tn::UTerm, tn::B1>, tn::B0>, tn::B0>, tn::B0>, tn::B1>, tn::B0>, tn::B0>, tn::B0>, tn::B0>, tn::B0>,
    576 => tn::UInt<tn::UInt<tn::UInt<tn::UInt<tn::UInt<tn::UInt<tn::UInt<tn::UInt<tn::UInt<tn::UInt<tn::UTerm, tn::B1>, tn::B0>, tn::B0>, tn::B1>, tn::B0>, tn::B0>, tn::B0>, tn::B0>, tn::B0>, tn::B0>,
    1023 => tn::U1023,
    1024 => tn::U1024,
    1025 => tn::UInt<tn::UInt<tn::UInt<tn::UInt<tn::UInt<tn::UInt<tn::UInt<tn::UInt<tn::UInt<tn::UInt<tn::UInt<tn::UTerm, tn::B1>, tn::B0>, tn::B0>, tn::B0>, tn::B0>, tn::B0>, tn::B0>, tn::B0>, tn::B0>, tn::B0>, tn::B1>,
    4096 => tn::U4096,
    8193 => tn::UInt<tn::UInt<tn::UInt<tn::UInt<tn::UInt<tn::UInt<tn::UInt<tn::UInt<tn::UInt<tn::UInt<tn::UInt<tn::UInt<tn::UInt<tn::UInt<tn::UTerm, tn::B1>, tn::B0>, tn::B0>, tn::B0>, tn::B0>, tn::B0>, tn::B0>, tn::B0>, tn::B0>, tn::B0>, tn::B0>, tn::B0>, tn::B0>, tn::B1>,
    65535 => tn::UInt<tn::UInt<tn::UInt<tn::UInt<tn::UInt<tn::UInt<tn::UInt<tn::UInt<tn::UInt<tn::UInt<tn::UInt<tn::UInt<tn::UInt<tn::UInt<tn::UInt<tn::UInt<tn::UTerm, tn::B1>, tn::B1>, tn::B1>, tn::B1>, tn::B1>, tn::B1>, tn::B1>, tn::B1>, tn::B1>, tn::B1>, tn::B1>, tn::B1>, tn::B1>, tn::B1>, tn::B1>, tn::B1>,
    65536 => tn::U65536,
    65568 => tn::UInt<tn::UInt<tn::UInt<tn::UInt<tn::UInt<tn::UInt<tn::UInt<tn::UInt<tn::UInt<tn::UInt<tn::UInt<tn::UInt<tn::UInt<tn::UInt<tn::UInt<tn::UInt<tn::UInt<tn::UTerm, tn::B1>, tn::B0>, tn::B0>, tn::B0>, tn::B0>, tn::B0>, tn::B0>, tn::B0>, tn::B0>, tn::B0>, tn::B0>, tn::B1>, tn::B0>, tn::B0>, tn::B0>, tn::B0>, tn::B0>,
    65600 => tn::UInt<tn::UInt<tn::UInt<tn::UInt<tn::UInt<tn::UInt<tn::UInt<tn::UInt<tn::UInt<tn::UInt<tn::UInt<tn::UInt<tn::UInt<tn::UInt<tn::UInt<tn::UInt<tn::UInt<tn::UTerm, tn::B1>, tn::B0>, tn::B0>, tn::B0>, tn::B0>, tn::B0>, tn::B0>, tn::B0>, tn::B0>, tn::B0>, tn::B1>, tn::B0>, tn::B0>, tn::B0>, tn::B0>, tn::B0>, tn::B0>);

/// Identifies a hash type: family + variant (+ output bytes for Skein).
#[derive(Clone, Copy, Debug, PartialEq, Eq)]
pub enum Fam {
    Blake,
    Groestl,
    Jh,
    Skein,
}
#[derive(Clone, Copy, Debug, PartialEq, Eq)]
pub struct HashId {
    pub fam: Fam,
    /// digest bits for Blake/Groestl/Jh, state bits for Skein
    pub bits: u32,
    /// output bytes (Skein only; otherwise bits/8)
    pub out: usize,
}

impl HashId {
    pub fn name(&self) -> String {
        match self.fam {
            Fam::Blake => format!("Blake{}", self.bits),
            Fam::Groestl => format!("Groestl{}", self.bits),
            Fam::Jh => format!("Jh{}", self.bits),
            Fam::Skein => format!("Skein{}-{}", self.bits, self.out),
        }
    }
    /// family + block size, e.g. "Blake-bs64" (coverage-class prefix)
    pub fn fam_name(&self) -> String {
        format!("{:?}-bs{}", self.fam, self.block_size())
    }
    pub fn parse(s: &str) -> HashId {
        let f = |p: &str, fam: Fam| -> Option<HashId> {
            s.strip_prefix(p).map(|r| {
                if fam == Fam::Skein {
                    let (a, b) = r.split_once('-').expect("SkeinB-N");
                    HashId { fam, bits: a.parse().unwrap(), out: b.parse().unwrap() }
                } else {
                    let bits: u32 = r.parse().unwrap();
                    HashId { fam, bits, out: bits as usize / 8 }
                }
            })
        };
        f("Blake", Fam::Blake)
            .or_else(|| f("Groestl", Fam::Groestl))
            .or_else(|| f("Jh", Fam::Jh))
            .or_else(|| f("Skein", Fam::Skein))
            .unwrap_or_else(|| panic!("unknown hash {}", s))
    }
    pub fn block_size(&self) -> usize {
        match self.fam {
            Fam::Blake | Fam::Groestl => {
                if self.bits <= 256 {
                    64
                } else {
                    128
                }
            }
            Fam::Jh => 64,
            Fam::Skein => self.bits as usize / 8,
        }
    }
    pub fn new(&self) -> Box<dyn DynHash + Send> {
        match (self.fam, self.bits) {
            (Fam::Blake, 224) => Box::new(blake_hash::Blake224::default()),
            (Fam::Blake, 256) => Box::new(blake_hash::Blake256::default()),
            (Fam::Blake, 384) => Box::new(blake_hash::Blake384::default()),
            (Fam::Blake, 512) => Box::new(blake_hash::Blake512::default()),
            #[cfg(target_arch = "x86_64")]
            (Fam::Groestl, 224) => Box::new(groestl_aesni::Groestl224::default()),
            #[cfg(target_arch = "x86_64")]
            (Fam::Groestl, 256) => Box::new(groestl_aesni::Groestl256::default()),
            #[cfg(target_arch = "x86_64")]
            (Fam::Groestl, 384) => Box::new(groestl_aesni::Groestl384::default()),
            #[cfg(target_arch = "x86_64")]
            (Fam::Groestl, 512) => Box::new(groestl_aesni::Groestl512::default()),
            (Fam::Jh, 224) => Box::new(jh_x86_64::Jh224::default()),
            (Fam::Jh, 256) => Box::new(jh_x86_64::Jh256::default()),
            (Fam::Jh, 384) => Box::new(jh_x86_64::Jh384::default()),
            (Fam::Jh, 512) => Box::new(jh_x86_64::Jh512::default()),
            (Fam::Skein, b) => new_skein(b as usize / 8, self.out),
            _ => panic!("bad hash id"),
        }
    }
    /// The implementation's one-shot `Digest::digest`.
    pub fn oneshot(&self, m: &[u8]) -> Vec<u8> {
        match (self.fam, self.bits) {
            (Fam::Blake, 224) => blake_hash::Blake224::digest(m).to_vec(),
            (Fam::Blake, 256) => blake_hash::Blake256::digest(m).to_vec(),
            (Fam::Blake, 384) => blake_hash::Blake384::digest(m).to_vec(),
            (Fam::Blake, 512) => blake_hash::Blake512::digest(m).to_vec(),
            #[cfg(target_arch = "x86_64")]
            (Fam::Groestl, 224) => groestl_aesni::Groestl224::digest(m).to_vec(),
            #[cfg(target_arch = "x86_64")]
            (Fam::Groestl, 256) => groestl_aesni::Groestl256::digest(m).to_vec(),
            #[cfg(target_arch = "x86_64")]
            (Fam::Groestl, 384) => groestl_aesni::Groestl384::digest(m).to_vec(),
            #[cfg(target_arch = "x86_64")]
            (Fam::Groestl, 512) => groestl_aesni::Groestl512::digest(m).to_vec(),
            (Fam::Jh, 224) => jh_x86_64::Jh224::digest(m).to_vec(),
            (Fam::Jh, 256) => jh_x86_64::Jh256::digest(m).to_vec(),
            (Fam::Jh, 384) => jh_x86_64::Jh384::digest(m).to_vec(),
            (Fam::Jh, 512) => jh_x86_64::Jh512::digest(m).to_vec(),
            (Fam::Skein, b) => skein_oneshot(b as usize / 8, self.out, m),
            _ => panic!("bad hash id"),
        }
    }
    /// The reference model's digest of `m`.
    pub fn reference(&self, m: &[u8]) -> Vec<u8> {
        use crate::refmodel as r;
        match self.fam {
            Fam::Blake => r::blake::blake(self.bits, m),
            Fam::Groestl => r::groestl::groestl(self.bits, m),
            Fam::Jh => r::jh::jh(self.bits, m),
            Fam::Skein => r::threefish::skein(self.bits as usize / 8, self.out, m),
        }
    }
    pub fn selftest_mask(&self) -> u32 {
        use crate::refmodel as r;
        match self.fam {
            Fam::Blake => r::T_BLAKE,
            Fam::Groestl => r::T_GROESTL,
            Fam::Jh => r::T_JH,
            Fam::Skein => r::T_SKEIN,
        }
    }
}

pub fn fixed_hashes() -> Vec<HashId> {
    let mut v = Vec::new();
    for fam in [Fam::Blake, Fam::Groestl, Fam::Jh] {
        // groestl-aesni is x86-64 only: on other targets (the big-endian Miri configuration) it is absent
        if fam == Fam::Groestl && !cfg!(target_arch = "x86_64") {
            continue;
        }
        for bits in [224u32, 256, 384, 512] {
            v.push(HashId { fam, bits, out: bits as usize / 8 });
        }
    }
    v
}
/// The 15 hash types of C08: BLAKE x4, Groestl x4, JH x4, Skein x3 (each Skein with the given N).
pub fn hashes15(skein_n: usize) -> Vec<HashId> {
    let mut v = fixed_hashes();
    for bits in [256u32, 512, 1024] {
        v.push(HashId { fam: Fam::Skein, bits, out: skein_n });
    }
    v
}
