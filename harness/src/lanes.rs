//! Scalar lane model for C12 / C13 / C19: a vector of 128/256/512 bits is a little-endian byte
//! string; every operation is defined on plain integers with wrapping_add, rotate_right, explicit
//! index permutations, mask-and-shift group swaps and swap_bytes.

fn words(b: &[u8], wbits: usize) -> Vec<u128> {
    let wb = wbits / 8;
    b.chunks(wb)
        .map(|c| {
            let mut x = 0u128;
            for (i, v) in c.iter().enumerate() {
                x |= (*v as u128) << (8 * i);
            }
            x
        })
        .collect()
}
fn unwords(w: &[u128], wbits: usize) -> Vec<u8> {
    let wb = wbits / 8;
    let mut o = Vec::with_capacity(w.len() * wb);
    for x in w {
        for i in 0..wb {
            o.push((x >> (8 * i)) as u8);
        }
    }
    o
}
fn mask(wbits: usize) -> u128 {
    if wbits == 128 {
        u128::MAX
    } else {
        (1u128 << wbits) - 1
    }
}

pub fn add(a: &[u8], b: &[u8], wbits: usize) -> Vec<u8> {
    let (x, y) = (words(a, wbits), words(b, wbits));
    let r: Vec<u128> = x.iter().zip(y.iter()).map(|(p, q)| p.wrapping_add(*q) & mask(wbits)).collect();
    unwords(&r, wbits)
}
pub fn and(a: &[u8], b: &[u8]) -> Vec<u8> {
    a.iter().zip(b).map(|(x, y)| x & y).collect()
}
pub fn or(a: &[u8], b: &[u8]) -> Vec<u8> {
    a.iter().zip(b).map(|(x, y)| x | y).collect()
}
pub fn xor(a: &[u8], b: &[u8]) -> Vec<u8> {
    a.iter().zip(b).map(|(x, y)| x ^ y).collect()
}
pub fn not(a: &[u8]) -> Vec<u8> {
    a.iter().map(|x| !x).collect()
}
/// andnot(a, b) = !a & b
pub fn andnot(a: &[u8], b: &[u8]) -> Vec<u8> {
    a.iter().zip(b).map(|(x, y)| !x & y).collect()
}
pub fn rotr(a: &[u8], wbits: usize, n: u32) -> Vec<u8> {
    let n = n as usize % wbits;
    let r: Vec<u128> = words(a, wbits)
        .iter()
        .map(|x| if n == 0 { *x } else { ((x >> n) | (x << (wbits - n))) & mask(wbits) })
        .collect();
    unwords(&r, wbits)
}
pub fn bswap(a: &[u8], wbits: usize) -> Vec<u8> {
    let wb = wbits / 8;
    a.chunks(wb).flat_map(|c| c.iter().rev().copied().collect::<Vec<u8>>()).collect()
}
/// Word permutation of a 4-word vector: out[i] = in[perm[i]].
fn perm4(a: &[u8], wbits: usize, perm: [usize; 4]) -> Vec<u8> {
    let w = words(a, wbits);
    assert_eq!(w.len(), 4);
    unwords(&[w[perm[0]], w[perm[1]], w[perm[2]], w[perm[3]]], wbits)
}
/// shuffle1230: [w0,w1,w2,w3] -> [w3,w0,w1,w2]
pub fn shuffle1230(a: &[u8], wbits: usize) -> Vec<u8> {
    perm4(a, wbits, [3, 0, 1, 2])
}
/// shuffle2301: [w0,w1,w2,w3] -> [w2,w3,w0,w1]
pub fn shuffle2301(a: &[u8], wbits: usize) -> Vec<u8> {
    perm4(a, wbits, [2, 3, 0, 1])
}
/// shuffle3012: [w0,w1,w2,w3] -> [w1,w2,w3,w0]
pub fn shuffle3012(a: &[u8], wbits: usize) -> Vec<u8> {
    perm4(a, wbits, [1, 2, 3, 0])
}
/// The same permutations applied to the four 32-bit words of every 128-bit lane.
pub fn lane_shuffle(a: &[u8], which: u32) -> Vec<u8> {
    a.chunks(16)
        .flat_map(|l| match which {
            1230 => shuffle1230(l, 32),
            2301 => shuffle2301(l, 32),
            3012 => shuffle3012(l, 32),
            _ => unreachable!(),
        })
        .collect()
}
/// Exchange adjacent n-bit groups (n in 1,2,4,8,16,32,64) inside every 128-bit lane.
pub fn swap(a: &[u8], n: u32) -> Vec<u8> {
    // mask selecting the upper group of every pair
    let mut m: u128 = 0;
    let mut i = 0;
    while i < 128 {
        if (i / n) % 2 == 1 {
            m |= 1u128 << i;
        }
        i += 1;
    }
    let r: Vec<u128> = words(a, 128).iter().map(|x| ((x & m) >> n) | ((x << n) & m)).collect();
    unwords(&r, 128)
}
/// transpose4 of four 512-bit vectors of four 128-bit lanes each.
pub fn transpose4(a: &[u8], b: &[u8], c: &[u8], d: &[u8]) -> [Vec<u8>; 4] {
    let rows = [a, b, c, d];
    core::array::from_fn(|i| rows.iter().flat_map(|r| r[16 * i..16 * i + 16].to_vec()).collect())
}
/// Replace element `i` (of `ebytes` bytes) of the image.
pub fn insert(a: &[u8], e: &[u8], i: usize) -> Vec<u8> {
    let mut o = a.to_vec();
    o[i * e.len()..(i + 1) * e.len()].copy_from_slice(e);
    o
}
pub fn extract(a: &[u8], ebytes: usize, i: usize) -> Vec<u8> {
    a[i * ebytes..(i + 1) * ebytes].to_vec()
}

pub fn le_u32s(a: &[u8]) -> Vec<u32> {
    words(a, 32).iter().map(|x| *x as u32).collect()
}
pub fn le_u64s(a: &[u8]) -> Vec<u64> {
    words(a, 64).iter().map(|x| *x as u64).collect()
}
pub fn le_u128s(a: &[u8]) -> Vec<u128> {
    words(a, 128)
}
pub fn from_u32s(w: &[u32]) -> Vec<u8> {
    w.iter().flat_map(|x| x.to_le_bytes()).collect()
}
pub fn from_u64s(w: &[u64]) -> Vec<u8> {
    w.iter().flat_map(|x| x.to_le_bytes()).collect()
}
pub fn from_u128s(w: &[u128]) -> Vec<u8> {
    w.iter().flat_map(|x| x.to_le_bytes()).collect()
}

#[cfg(test)]
mod t {
    use super::*;
    #[test]
    fn swaps() {
        let a: Vec<u8> = (0..16).collect();
        assert_eq!(swap(&a, 8), vec![1, 0, 3, 2, 5, 4, 7, 6, 9, 8, 11, 10, 13, 12, 15, 14]);
        assert_eq!(swap(&a, 64), vec![8, 9, 10, 11, 12, 13, 14, 15, 0, 1, 2, 3, 4, 5, 6, 7]);
        assert_eq!(swap(&[0x01; 16], 1), vec![0x02; 16]);
        assert_eq!(swap(&[0x0f; 16], 4), vec![0xf0; 16]);
    }
}
