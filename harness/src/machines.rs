//! Instantiating generic code for every ppv-lite86 `Machine` this build offers: the five x86-64
//! machines (each inside a function carrying the matching `#[target_feature]`, exactly like the
//! crate's own `dispatch!` does) or the portable `GenericMachine` (no_simd feature, Miri).

use ppv_lite86::Machine;

/// A computation generic over the machine type.
pub trait MachFn {
    fn call<M: Machine>(&mut self, name: &'static str, m: M);
}

#[cfg(all(not(feature = "portable"), not(miri)))]
mod imp {
    use super::MachFn;
    use ppv_lite86::x86_64::{AVX, AVX2, SSE2, SSE41, SSSE3};
    use ppv_lite86::Machine;

    pub const NAMES: &[&str] = &["sse2", "ssse3", "sse41", "avx", "avx2"];

    #[target_feature(enable = "sse2")]
    unsafe fn run_sse2<F: MachFn>(f: &mut F) {
        f.call("sse2", SSE2::instance())
    }
    #[target_feature(enable = "ssse3")]
    unsafe fn run_ssse3<F: MachFn>(f: &mut F) {
        f.call("ssse3", SSSE3::instance())
    }
    #[target_feature(enable = "sse4.1")]
    #[target_feature(enable = "ssse3")]
    unsafe fn run_sse41<F: MachFn>(f: &mut F) {
        f.call("sse41", SSE41::instance())
    }
    #[target_feature(enable = "avx")]
    #[target_feature(enable = "sse4.1")]
    #[target_feature(enable = "ssse3")]
    unsafe fn run_avx<F: MachFn>(f: &mut F) {
        f.call("avx", AVX::instance())
    }
    #[target_feature(enable = "avx2")]
    unsafe fn run_avx2<F: MachFn>(f: &mut F) {
        f.call("avx2", AVX2::instance())
    }
    /// A computation that also uses the direct vector-to-vector view conversions
    /// (`u128xN -> u32x4xN / u64x2xN`), which only the x86-64 vector types offer.
    pub trait ViewFn {
        fn call<M: Machine>(&mut self, name: &'static str, m: M)
        where
            M::u128x1: Into<M::u32x4> + Into<M::u64x2>,
            M::u128x2: Into<M::u32x4x2> + Into<M::u64x2x2>,
            M::u128x4: Into<M::u32x4x4> + Into<M::u64x2x4>;
    }
    #[target_feature(enable = "sse2")]
    unsafe fn views_sse2<F: ViewFn>(f: &mut F) {
        f.call("sse2", SSE2::instance())
    }
    #[target_feature(enable = "ssse3")]
    unsafe fn views_ssse3<F: ViewFn>(f: &mut F) {
        f.call("ssse3", SSSE3::instance())
    }
    #[target_feature(enable = "sse4.1")]
    #[target_feature(enable = "ssse3")]
    unsafe fn views_sse41<F: ViewFn>(f: &mut F) {
        f.call("sse41", SSE41::instance())
    }
    #[target_feature(enable = "avx")]
    #[target_feature(enable = "sse4.1")]
    #[target_feature(enable = "ssse3")]
    unsafe fn views_avx<F: ViewFn>(f: &mut F) {
        f.call("avx", AVX::instance())
    }
    #[target_feature(enable = "avx2")]
    unsafe fn views_avx2<F: ViewFn>(f: &mut F) {
        f.call("avx2", AVX2::instance())
    }
    pub fn run_views<F: ViewFn>(name: &str, f: &mut F) {
        unsafe {
            match name {
                "sse2" => views_sse2(f),
                "ssse3" => views_ssse3(f),
                "sse41" => views_sse41(f),
                "avx" => views_avx(f),
                "avx2" => views_avx2(f),
                _ => panic!("unknown machine {}", name),
            }
        }
    }
    pub fn run<F: MachFn>(name: &str, f: &mut F) {
        assert!(
            std::is_x86_feature_detected!("avx2") && std::is_x86_feature_detected!("ssse3") && std::is_x86_feature_detected!("sse4.1"),
            "host lacks the CPU features needed to execute every backend"
        );
        unsafe {
            match name {
                "sse2" => run_sse2(f),
                "ssse3" => run_ssse3(f),
                "sse41" => run_sse41(f),
                "avx" => run_avx(f),
                "avx2" => run_avx2(f),
                _ => panic!("unknown machine {}", name),
            }
        }
    }
}

#[cfg(any(feature = "portable", miri))]
mod imp {
    use super::MachFn;
    use ppv_lite86::generic::GenericMachine;
    use ppv_lite86::Machine;
    pub const NAMES: &[&str] = &["generic"];
    pub fn run<F: MachFn>(name: &str, f: &mut F) {
        assert_eq!(name, "generic");
        f.call("generic", unsafe { GenericMachine::instance() })
    }
}

pub use imp::{run, NAMES};
#[cfg(all(not(feature = "portable"), not(miri)))]
pub use imp::{run_views, ViewFn};

pub fn for_each<F: MachFn>(f: &mut F) {
    for n in NAMES {
        run(n, f);
    }
}
