//! Deterministic PRNG (splitmix64 seeding + xoshiro256**) and boundary-biased generators.
//! No dependency on `rand`: every random choice in the harness flows from VERIF_SEED through here.

#[derive(Clone)]
pub struct Rng {
    s: [u64; 4],
}

pub fn splitmix64(x: &mut u64) -> u64 {
    *x = x.wrapping_add(0x9e37_79b9_7f4a_7c15);
    let mut z = *x;
    z = (z ^ (z >> 30)).wrapping_mul(0xbf58_476d_1ce4_e5b9);
    z = (z ^ (z >> 27)).wrapping_mul(0x94d0_49bb_1331_11eb);
    z ^ (z >> 31)
}

/// Mix several integers into one seed (used for hash(VERIF_SEED, shard, config, case index)).
pub fn mix(parts: &[u64]) -> u64 {
    let mut h = 0x243f_6a88_85a3_08d3u64;
    for &p in parts {
        let mut x = h ^ p;
        h = splitmix64(&mut x) ^ h.rotate_left(17);
    }
    h
}

/// FNV-1a over bytes, for case-descriptor hashing (distinct counting).
pub fn fnv(bytes: &[u8]) -> u64 {
    let mut h = 0xcbf2_9ce4_8422_2325u64;
    for &b in bytes {
        h ^= b as u64;
        h = h.wrapping_mul(0x0000_0100_0000_01b3);
    }
    // final avalanche so that low bits are usable
    let mut x = h;
    splitmix64(&mut x)
}

impl Rng {
    pub fn new(seed: u64) -> Self {
        let mut x = seed;
        let s = [
            splitmix64(&mut x),
            splitmix64(&mut x),
            splitmix64(&mut x),
            splitmix64(&mut x),
        ];
        Rng { s }
    }
    pub fn u64(&mut self) -> u64 {
        let r = self.s[1].wrapping_mul(5).rotate_left(7).wrapping_mul(9);
        let t = self.s[1] << 17;
        self.s[2] ^= self.s[0];
        self.s[3] ^= self.s[1];
        self.s[1] ^= self.s[2];
        self.s[0] ^= self.s[3];
        self.s[2] ^= t;
        self.s[3] = self.s[3].rotate_left(45);
        r
    }
    pub fn u32(&mut self) -> u32 {
        (self.u64() >> 32) as u32
    }
    pub fn u128(&mut self) -> u128 {
        ((self.u64() as u128) << 64) | self.u64() as u128
    }
    /// uniform in 0..n (n > 0)
    pub fn below(&mut self, n: u64) -> u64 {
        debug_assert!(n > 0);
        ((self.u64() as u128 * n as u128) >> 64) as u64
    }
    pub fn range(&mut self, lo: u64, hi_incl: u64) -> u64 {
        lo + self.below(hi_incl - lo + 1)
    }
    pub fn chance(&mut self, num: u64, den: u64) -> bool {
        self.below(den) < num
    }
    pub fn pick<'a, T>(&mut self, xs: &'a [T]) -> &'a T {
        &xs[self.below(xs.len() as u64) as usize]
    }
    pub fn fill(&mut self, buf: &mut [u8]) {
        for c in buf.chunks_mut(8) {
            let v = self.u64().to_le_bytes();
            c.copy_from_slice(&v[..c.len()]);
        }
    }
    pub fn bytes(&mut self, n: usize) -> Vec<u8> {
        let mut v = vec![0u8; n];
        self.fill(&mut v);
        v
    }
    /// Structured byte patterns: 0 zeros, 1 ones, 2 counting, 3 one-hot bit, 4.. random.
    pub fn pattern(&mut self, n: usize) -> (u8, Vec<u8>) {
        let k = self.below(8) as u8;
        let mut v = vec![0u8; n];
        match k {
            0 => {}
            1 => v.iter_mut().for_each(|b| *b = 0xff),
            2 => v.iter_mut().enumerate().for_each(|(i, b)| *b = i as u8),
            3 => {
                if n > 0 {
                    let bit = self.below(8 * n as u64) as usize;
                    v[bit / 8] = 1 << (bit % 8);
                }
            }
            _ => self.fill(&mut v),
        }
        (k.min(4), v)
    }
    /// 64-bit "interesting" values: boundaries of every word size, one-hot, random.
    pub fn edge64(&mut self) -> u64 {
        match self.below(10) {
            0 => 0,
            1 => u64::MAX,
            2 => 1u64 << self.below(64),
            3 => (1u64 << self.below(64)).wrapping_sub(1),
            4 => u64::MAX - self.below(8),
            5 => (1u64 << 32).wrapping_add(self.below(9)).wrapping_sub(4),
            6 => self.below(8),
            _ => self.u64(),
        }
    }
}

pub fn hex(b: &[u8]) -> String {
    let mut s = String::with_capacity(b.len() * 2);
    for x in b {
        s.push_str(&format!("{:02x}", x));
    }
    s
}

pub fn unhex(s: &str) -> Vec<u8> {
    let s: Vec<u8> = s.bytes().filter(|c| !c.is_ascii_whitespace()).collect();
    assert!(s.len() % 2 == 0, "odd hex length");
    let v = |c: u8| -> u8 {
        match c {
            b'0'..=b'9' => c - b'0',
            b'a'..=b'f' => c - b'a' + 10,
            b'A'..=b'F' => c - b'A' + 10,
            _ => panic!("bad hex"),
        }
    };
    s.chunks(2).map(|p| (v(p[0]) << 4) | v(p[1])).collect()
}
