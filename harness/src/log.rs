//! Append-only event log of a worker: announced cases, violations, coverage classes, samples.
//!
//! Files written for `out=PATH`:
//!   PATH      JSON lines: {"t":"viol",..}, {"t":"sample",..}, {"t":"note",..}, final {"t":"summary",..}
//!   PATH.cur  the case announced last (overwritten in place *before* the case executes), so a
//!             worker killed by a signal is attributed to the case it was executing
//!   PATH.h    raw little-endian u64 hashes of the distinct non-trivial cases (the driver unions them)

use std::collections::{BTreeMap, HashSet};
use std::fs::File;
use std::io::Write;
use std::os::unix::fs::FileExt;
use std::panic::{catch_unwind, AssertUnwindSafe};
use std::sync::Mutex;

static LAST_PANIC: Mutex<Option<String>> = Mutex::new(None);
/// Set while a monitor makes calls that are *allowed* to refuse by panicking (wrong-length vector
/// stores): the side file is not rewritten for those, which would cost a file write per call.
static EXPECTED_PANICS: std::sync::atomic::AtomicBool = std::sync::atomic::AtomicBool::new(false);

pub fn expect_panics(on: bool) {
    EXPECTED_PANICS.store(on, std::sync::atomic::Ordering::Relaxed);
}
static PANIC_FILE: std::sync::OnceLock<String> = std::sync::OnceLock::new();

pub fn install_panic_hook() {
    std::panic::set_hook(Box::new(|info| {
        let loc = info
            .location()
            .map(|l| format!("{}:{}", l.file(), l.line()))
            .unwrap_or_else(|| "?".into());
        let msg = if let Some(s) = info.payload().downcast_ref::<&str>() {
            s.to_string()
        } else if let Some(s) = info.payload().downcast_ref::<String>() {
            s.clone()
        } else {
            "<non-string panic>".into()
        };
        // a panic that cannot unwind aborts the process: keep the text of the last panic in a
        // side file, which the driver reads when a worker dies
        if let Some(p) = PANIC_FILE.get() {
            if !EXPECTED_PANICS.load(std::sync::atomic::Ordering::Relaxed) {
                let _ = std::fs::write(p, format!("{} @ {}\n", msg, loc));
            }
        }
        if let Ok(mut g) = LAST_PANIC.lock() {
            *g = Some(format!("{} @ {}", msg, loc));
        }
    }));
}

/// Run `f`, turning a panic into `Err("message @ file:line")`.
pub fn guarded<R>(f: impl FnOnce() -> R) -> Result<R, String> {
    match catch_unwind(AssertUnwindSafe(f)) {
        Ok(r) => Ok(r),
        Err(_) => {
            let m = LAST_PANIC
                .lock()
                .ok()
                .and_then(|mut g| g.take())
                .unwrap_or_else(|| "<panic>".into());
            Err(m)
        }
    }
}

/// Strip the volatile parts of a panic text so it can be used in a structural signature:
/// keeps the file name (without directories) and drops line numbers and values.
pub fn panic_sig(p: &str) -> String {
    let (msg, loc) = match p.rfind(" @ ") {
        Some(i) => (&p[..i], &p[i + 3..]),
        None => (p, ""),
    };
    let file = loc.rsplit('/').next().unwrap_or("").split(':').next().unwrap_or("");
    let mut m: String = msg.chars().take(48).collect();
    // values inside assertion messages vary; keep only the leading words
    if let Some(i) = m.find(|c: char| c == ':' || c == '`' || c == '(') {
        m.truncate(i);
    }
    let m = m.trim().replace(' ', "_");
    format!("panic:{}:{}", file, m)
}

pub fn jstr(s: &str) -> String {
    let mut o = String::with_capacity(s.len() + 2);
    o.push('"');
    for c in s.chars() {
        match c {
            '"' => o.push_str("\\\""),
            '\\' => o.push_str("\\\\"),
            '\n' => o.push_str("\\n"),
            '\r' => o.push_str("\\r"),
            '\t' => o.push_str("\\t"),
            c if (c as u32) < 0x20 => o.push_str(&format!("\\u{:04x}", c as u32)),
            c => o.push(c),
        }
    }
    o.push('"');
    o
}

pub struct Log {
    out: Option<File>,
    cur: Option<File>,
    hpath: Option<String>,
    cur_len: usize,
    pub cases: u64,
    pub evals: u64,
    pub violations: u64,
    pub panics: u64,
    distinct: HashSet<u64>,
    classes: BTreeMap<String, u64>,
    events: BTreeMap<String, u64>,
    samples: u64,
    sample_every: u64,
    seen_sigs: BTreeMap<String, u64>,
    pub current: String,
    pub quiet: bool,
}

const MAX_VIOL_PER_SIG: u64 = 3;
const MAX_SAMPLES: u64 = 12;

impl Log {
    pub fn new(path: Option<&str>) -> Log {
        if let Some(p) = path {
            let _ = PANIC_FILE.set(format!("{}.panic", p));
        }
        let (out, cur, hpath) = match path {
            Some(p) => (
                // append: under `-Zmiri-many-seeds` the same worker command runs once per seed
                Some(std::fs::OpenOptions::new().create(true).append(true).open(p).expect("create log")),
                Some(File::create(format!("{}.cur", p)).expect("create cur")),
                Some(format!("{}.h", p)),
            ),
            None => (None, None, None),
        };
        Log {
            out,
            cur,
            hpath,
            cur_len: 0,
            cases: 0,
            evals: 0,
            violations: 0,
            panics: 0,
            distinct: HashSet::new(),
            classes: BTreeMap::new(),
            events: BTreeMap::new(),
            samples: 0,
            sample_every: 1,
            seen_sigs: BTreeMap::new(),
            current: String::new(),
            quiet: false,
        }
    }

    fn line(&mut self, s: &str) {
        if let Some(f) = self.out.as_mut() {
            let _ = f.write_all(s.as_bytes());
            let _ = f.write_all(b"\n");
        } else if !self.quiet {
            println!("{}", s);
        }
    }

    /// Announce a case before executing it. `desc` is the replayable `k=v ...` descriptor.
    pub fn announce(&mut self, desc: &str) {
        self.cases += 1;
        self.current.clear();
        self.current.push_str(desc);
        if let Some(f) = self.cur.as_ref() {
            // overwrite in place, pad with spaces so that a shorter descriptor erases a longer one
            let mut b = desc.as_bytes().to_vec();
            b.push(b'\n');
            while b.len() < self.cur_len {
                b.push(b' ');
            }
            self.cur_len = desc.len() + 1;
            let _ = f.write_all_at(&b, 0);
        }
        // keep the first few and then exponentially rarer cases as verbatim samples
        if self.samples < MAX_SAMPLES && self.cases % self.sample_every == 0 {
            self.samples += 1;
            self.sample_every *= 7;
            let l = format!("{{\"t\":\"sample\",\"case\":{}}}", jstr(desc));
            self.line(&l);
        }
    }

    /// Count `n` oracle evaluations for the current case.
    pub fn eval(&mut self, n: u64) {
        self.evals += n;
    }

    /// Register the current case as distinct + non-trivial (by descriptor hash).
    pub fn nontrivial(&mut self) {
        let h = crate::prng::fnv(self.current.as_bytes());
        self.distinct.insert(h);
    }
    pub fn nontrivial_hash(&mut self, h: u64) {
        self.distinct.insert(h);
    }

    pub fn class(&mut self, key: &str) {
        *self.classes.entry(key.to_string()).or_insert(0) += 1;
    }
    pub fn class_n(&mut self, key: &str, n: u64) {
        *self.classes.entry(key.to_string()).or_insert(0) += n;
    }
    pub fn event(&mut self, key: &str, n: u64) {
        *self.events.entry(key.to_string()).or_insert(0) += n;
    }

    pub fn note(&mut self, key: &str, val: &str) {
        let l = format!("{{\"t\":\"note\",\"k\":{},\"v\":{}}}", jstr(key), jstr(val));
        self.line(&l);
    }

    /// Record a violation of the current case. `sig` is the structural signature used to match
    /// known findings; `detail` is free text (expected/actual etc.).
    pub fn violation(&mut self, sig: &str, detail: &str) {
        self.violations += 1;
        let n = self.seen_sigs.entry(sig.to_string()).or_insert(0);
        *n += 1;
        if *n <= MAX_VIOL_PER_SIG {
            let cur = self.current.clone();
            let l = format!(
                "{{\"t\":\"viol\",\"sig\":{},\"case\":{},\"detail\":{}}}",
                jstr(sig),
                jstr(&cur),
                jstr(detail)
            );
            self.line(&l);
            if let Some(f) = self.out.as_mut() {
                let _ = f.flush();
            }
        }
    }

    /// A panic inside a call that the property says must return.
    pub fn panic_violation(&mut self, sig_prefix: &str, p: &str) {
        self.panic_violation_ctx(sig_prefix, "", p)
    }
    /// `ctx` describes where in the case the panic happened (not part of the signature).
    pub fn panic_violation_ctx(&mut self, sig_prefix: &str, ctx: &str, p: &str) {
        self.panics += 1;
        let sig = format!("{}|{}", sig_prefix, panic_sig(p));
        let detail = if ctx.is_empty() { p.to_string() } else { format!("{}: {}", ctx, p) };
        self.violation(&sig, &detail);
    }

    pub fn finish(mut self) -> u64 {
        let mut s = String::from("{\"t\":\"summary\"");
        s.push_str(&format!(
            ",\"cases\":{},\"evals\":{},\"distinct\":{},\"violations\":{},\"panics\":{}",
            self.cases,
            self.evals,
            self.distinct.len(),
            self.violations,
            self.panics
        ));
        s.push_str(",\"sigs\":{");
        let mut first = true;
        for (k, v) in &self.seen_sigs {
            if !first {
                s.push(',');
            }
            first = false;
            s.push_str(&format!("{}:{}", jstr(k), v));
        }
        s.push_str("},\"classes\":{");
        first = true;
        for (k, v) in &self.classes {
            if !first {
                s.push(',');
            }
            first = false;
            s.push_str(&format!("{}:{}", jstr(k), v));
        }
        s.push_str("},\"events\":{");
        first = true;
        for (k, v) in &self.events {
            if !first {
                s.push(',');
            }
            first = false;
            s.push_str(&format!("{}:{}", jstr(k), v));
        }
        s.push_str("}}");
        self.line(&s);
        if let Some(p) = self.hpath.as_ref() {
            let mut v: Vec<u8> = Vec::with_capacity(self.distinct.len() * 8);
            for h in &self.distinct {
                v.extend_from_slice(&h.to_le_bytes());
            }
            let _ = std::fs::write(p, v);
        }
        if let Some(f) = self.out.as_mut() {
            let _ = f.flush();
        }
        self.violations
    }
}

/// `k=v` descriptor parsing for replay.
pub struct Desc<'a> {
    kv: Vec<(&'a str, &'a str)>,
}
impl<'a> Desc<'a> {
    pub fn parse(s: &'a str) -> Desc<'a> {
        let kv = s
            .split_whitespace()
            .filter_map(|t| t.split_once('='))
            .collect();
        Desc { kv }
    }
    pub fn get(&self, k: &str) -> Option<&'a str> {
        self.kv.iter().find(|(a, _)| *a == k).map(|(_, v)| *v)
    }
    pub fn str(&self, k: &str) -> &'a str {
        self.get(k).unwrap_or_else(|| panic!("descriptor lacks {}", k))
    }
    pub fn u64(&self, k: &str) -> u64 {
        let v = self.str(k);
        parse_u128(v) as u64
    }
    pub fn u128(&self, k: &str) -> u128 {
        parse_u128(self.str(k))
    }
    pub fn u64_or(&self, k: &str, d: u64) -> u64 {
        self.get(k).map(|v| parse_u128(v) as u64).unwrap_or(d)
    }
    pub fn bytes(&self, k: &str) -> Vec<u8> {
        crate::prng::unhex(self.str(k))
    }
}
pub fn parse_u128(v: &str) -> u128 {
    if let Some(h) = v.strip_prefix("0x") {
        u128::from_str_radix(h, 16).expect("hex int")
    } else {
        v.parse::<u128>().expect("int")
    }
}
