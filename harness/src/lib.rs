//! ccv — runtime monitors for cryptocorrosion (see /verif/DESIGN.md).
#![allow(clippy::too_many_arguments, clippy::needless_range_loop, clippy::type_complexity)]

pub mod api;
pub mod guard;
pub mod lanes;
pub mod log;
pub mod machines;
pub mod mon;
pub mod prng;
pub mod refmodel;
